#!/bin/sh
# usage: ./muttest.sh <patch.diff> "<props>" [tier]   — applies a seeded change to /repo, runs the checks, reverts.
patch="$1"; props="$2"; tier="${3:-quick}"
cd /verif || exit 3
if [ -n "$(git -C /repo status --porcelain)" ]; then echo "REPO NOT CLEAN"; exit 3; fi
git -C /repo apply "$patch" || { echo "PATCH DOES NOT APPLY"; exit 3; }
for p in $props; do
  out=$(./check $p $tier 2>&1); rc=$?
  echo "MUT $(basename $patch) $p $tier rc=$rc :: $(echo "$out" | grep -E '^(violation:|HARNESS|KNOWN)' | head -4 | cut -c1-160 | tr '\n' '|')"
done
git -C /repo checkout -- .
rm -f /verif/replays/C*.json
