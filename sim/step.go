package sim

import (
	"encoding/base64"
	"fmt"
	"net/url"
	"strconv"
	"strings"
	"time"
)

// SecretRef names a secret symbolically; it is resolved against the world when
// the step executes, so that deleting other steps during minimisation leaves
// the plan executable.
type SecretRef struct {
	Kind string `json:"kind"` // password oldpassword otp recovery totp sms confirm recover everify rm state stored literal empty
	A    int    `json:"a"`    // whose
	Idx  int    `json:"idx"`  // which one of that kind (negative: from the newest)
	Mut  string `json:"mut,omitempty"`
	Lit  string `json:"lit,omitempty"`
}

// Step is one element of a plan.
type Step struct {
	Kind   string            `json:"k"`
	B      int               `json:"b"`
	A      int               `json:"a"`
	Gap    time.Duration     `json:"gap,omitempty"`
	Sec    *SecretRef        `json:"sec,omitempty"`
	Sec2   *SecretRef        `json:"sec2,omitempty"`
	Str    map[string]string `json:"str,omitempty"`
	Fields map[string]string `json:"fields,omitempty"`
	RM     bool              `json:"rm,omitempty"`
	Fault  *FaultDirective   `json:"fault,omitempty"`
}

func (s Step) str(k string) string {
	if s.Str == nil {
		return ""
	}
	return s.Str[k]
}

func (s Step) String() string {
	var sb strings.Builder
	fmt.Fprintf(&sb, "%s b=%d a=%d", s.Kind, s.B, s.A)
	if s.Gap != 0 {
		fmt.Fprintf(&sb, " gap=%s", s.Gap)
	}
	if s.Sec != nil {
		fmt.Fprintf(&sb, " sec=%s", s.Sec)
	}
	if s.Sec2 != nil {
		fmt.Fprintf(&sb, " sec2=%s", s.Sec2)
	}
	if s.RM {
		sb.WriteString(" rm")
	}
	for _, k := range sortedKeys(s.Str) {
		fmt.Fprintf(&sb, " %s=%q", k, s.Str[k])
	}
	for _, k := range sortedKeys(s.Fields) {
		fmt.Fprintf(&sb, " f.%s=%q", k, s.Fields[k])
	}
	if s.Fault != nil {
		fmt.Fprintf(&sb, " fault=%s#%d:%s", s.Fault.Site, s.Fault.Index, s.Fault.Kind)
	}
	return sb.String()
}

func (r *SecretRef) String() string {
	s := fmt.Sprintf("%s(a=%d,i=%d", r.Kind, r.A, r.Idx)
	if r.Mut != "" {
		s += ",mut=" + r.Mut
	}
	if r.Lit != "" {
		s += fmt.Sprintf(",lit=%q", r.Lit)
	}
	return s + ")"
}

// Presented is a concrete secret carried by a request together with the KB's
// rating of it at the moment the request is sent.
type Presented struct {
	Role   string // password otp code recovery token cookie state
	Value  string
	Known  *Secret // exact KB match (after mutation), nil if none
	Status string  // Known.Status at send time
	// for TOTP codes: verdict per account ("fresh"/"skew"/"stale")
	TOTP map[int]string
}

// resolve turns a reference into a concrete string.
func (w *World) resolve(ref *SecretRef) string {
	if ref == nil {
		return ""
	}
	var v string
	pick := func(list []*Secret) *Secret {
		if len(list) == 0 {
			return nil
		}
		i := ref.Idx
		if i < 0 {
			i = len(list) + i
		}
		if i < 0 {
			i = 0
		}
		if i >= len(list) {
			i = len(list) - 1
		}
		return list[i]
	}
	switch ref.Kind {
	case "empty":
		v = ""
	case "literal":
		v = ref.Lit
	case "password":
		v = w.KB.Password[ref.A]
	case "oldpassword":
		if o := w.KB.OldPw[ref.A]; len(o) > 0 {
			i := ref.Idx
			if i < 0 {
				i += len(o)
			}
			if i < 0 || i >= len(o) {
				i = len(o) - 1
			}
			v = o[i]
		} else {
			v = "Never-Was-1!"
		}
	case "otp", "recovery", "confirm", "recover", "everify", "rm", "state", "sms":
		if s := pick(w.KB.list(ref.Kind, ref.A)); s != nil {
			v = s.Value
		} else {
			v = ref.Lit
		}
	case "totp":
		// code for account A's current secret at now + Idx periods
		sec := w.KB.TOTPSecret[ref.A]
		if ref.Lit != "" {
			sec = ref.Lit
		}
		v = totpAt(sec, time.Now().Add(time.Duration(ref.Idx)*30*time.Second))
	case "totp_again":
		// the digits last submitted as a genuine TOTP code for account A
		v = w.lastTOTP[ref.A]
	case "totp_pending":
		// code for the secret being enrolled in browser A's session (A = browser here)
		if ref.A >= 0 && ref.A < len(w.Browsers) {
			v = totpAt(w.Browsers[ref.A].Session["totp_secret"], time.Now().Add(time.Duration(ref.Idx)*30*time.Second))
		}
	case "stored":
		// a value held in storage replayed as a secret
		if ref.A >= 0 && ref.A < len(w.Accts) {
			if row := w.DB.rows[w.Accts[ref.A].PID]; row != nil {
				v = row.fields()[ref.Lit]
				if ref.Lit == "otps" || ref.Lit == "recovery_codes" {
					v = strings.Split(v, ",")[0]
				}
			}
		}
	case "forged_rm":
		pid := w.pidOf(ref.A, nil)
		raw := append([]byte(pid+";"), make([]byte, 32)...)
		fr := NewRng(uint64(ref.Idx) + 77)
		for i := len(pid) + 1; i < len(raw); i++ {
			raw[i] = byte(fr.Intn(256))
		}
		v = base64.URLEncoding.EncodeToString(raw)
	case "rmtable":
		if len(w.DB.rm) > 0 {
			t := w.DB.rm[len(w.DB.rm)-1]
			v = t.hash
		}
	}
	return mutate(v, ref.Mut, w, ref)
}

// mutate applies a near-miss transformation.
func mutate(v, mut string, w *World, ref *SecretRef) string {
	if mut == "" {
		return v
	}
	name, arg, _ := strings.Cut(mut, ":")
	n, _ := strconv.Atoi(arg)
	switch name {
	case "flipbit":
		// flip bit n of the decoded bytes of a base64 token
		raw, ok := lenientB64(v)
		if !ok || len(raw) == 0 {
			return v + "x"
		}
		n %= len(raw) * 8
		raw[n/8] ^= 1 << (n % 8)
		return base64.URLEncoding.EncodeToString(raw)
	case "trunc":
		raw, ok := lenientB64(v)
		if !ok {
			if n < len(v) {
				return v[:n]
			}
			return v
		}
		if n < len(raw) {
			raw = raw[:n]
		}
		return base64.URLEncoding.EncodeToString(raw)
	case "extend":
		raw, ok := lenientB64(v)
		if !ok {
			return v + strings.Repeat("A", n+1)
		}
		for i := 0; i <= n; i++ {
			raw = append(raw, byte(i*37+1))
		}
		return base64.URLEncoding.EncodeToString(raw)
	case "splice":
		// first half of v, second half of account n's newest token of the same kind
		raw, ok := lenientB64(v)
		var other []byte
		if l := w.KB.list(ref.Kind, n); len(l) > 0 {
			other, _ = lenientB64(l[len(l)-1].Value)
		}
		if !ok || len(other) != len(raw) || len(raw) < 2 {
			return v
		}
		h := len(raw) / 2
		return base64.URLEncoding.EncodeToString(append(append([]byte{}, raw[:h]...), other[h:]...))
	case "splice2":
		raw, ok := lenientB64(v)
		var other []byte
		if l := w.KB.list(ref.Kind, n); len(l) > 0 {
			other, _ = lenientB64(l[len(l)-1].Value)
		}
		if !ok || len(other) != len(raw) || len(raw) < 2 {
			return v
		}
		h := len(raw) / 2
		return base64.URLEncoding.EncodeToString(append(append([]byte{}, other[:h]...), raw[h:]...))
	case "nopad":
		return strings.TrimRight(v, "=")
	case "stdalpha":
		return strings.NewReplacer("-", "+", "_", "/").Replace(v)
	case "crlf":
		if len(v) > 10 {
			return v[:10] + "\r\n" + v[10:]
		}
		return v
	case "upper":
		return strings.ToUpper(v)
	case "suffix":
		return v + arg
	case "prefix":
		return arg + v
	case "chop":
		if len(v) > n && n >= 0 {
			return v[:len(v)-n]
		}
		return ""
	case "first":
		if len(v) > n {
			return v[:n]
		}
		return v
	case "rot":
		// change one character (stay in alphabet of digits/hex)
		if len(v) == 0 {
			return "0"
		}
		i := n % len(v)
		c := v[i]
		var r byte
		switch {
		case c >= '0' && c <= '8':
			r = c + 1
		case c == '9':
			r = '0'
		case c >= 'a' && c <= 'y':
			r = c + 1
		default:
			r = 'a'
		}
		return v[:i] + string(r) + v[i+1:]
	}
	return v
}

func sortedKeys(m map[string]string) []string {
	ks := make([]string, 0, len(m))
	for k := range m {
		ks = append(ks, k)
	}
	sortStrings(ks)
	return ks
}

func unesc(s string) string {
	v, err := url.QueryUnescape(s)
	if err != nil {
		return s
	}
	return v
}
