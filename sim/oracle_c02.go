package sim

import (
	"fmt"
	"strings"
)

// c02Oracle: with a second factor enabled, password knowledge alone never
// yields a session; the pending login completes only with the account's own
// factor.
type c02Oracle struct{}

func newC02Oracle(w *World) Oracle { return &c02Oracle{} }

func (c *c02Oracle) Check(w *World, o *Obs) []Violation {
	var out []Violation
	if !o.IsHTTP {
		return nil
	}
	st := o.Step
	uidPut, hasUID := w.loginPut(o)
	if !hasUID || uidPut == "" {
		// reach: a 2FA account's primary credential parked the login
		if st.Kind == "login" || st.Kind == "otp_login" || st.Kind == "recover_end" {
			for _, k := range []string{"totp_pending", "sms_pending"} {
				if v, ok := o.sessPut(k); ok && v != "" {
					w.Stats.Reach["c02_parked_"+st.Kind]++
				}
			}
		}
		return nil
	}
	row := o.RowsBefore[uidPut]
	if row == nil {
		return nil
	}
	a := w.acctByPID(uidPut)
	switch st.Kind {
	case "login", "otp_login", "recover_end":
		if !w.rowHasFactor(row) {
			return nil
		}
		// the cookie middleware may have produced the uid (half-auth, not part
		// of this property)
		if ck := o.presented("cookie"); ck != nil && o.uidBefore() == "" && ck.Known != nil && ck.Known.Acct == a && usable(ck.Status) {
			if v, ok := hasPut(o.SessEvents, "halfauth"); ok && v == "true" && o.SessAfter["halfauth"] == "true" {
				return nil
			}
		}
		out = append(out, viol("C02", "primary_yields_session", st.Kind, o,
			fmt.Sprintf("%s has a second factor enabled (totp=%v sms=%v) yet %s alone produced a logged-in session", uidPut, row.TOTPSecretKey != "", row.SMSPhone != "", st.Kind)))
	case "totp_validate", "sms_validate":
		if o.uidBefore() == uidPut {
			return nil // re-validation by the logged-in user, not a pending login
		}
		wasPending := o.SessBefore["totp_pending"] == uidPut || o.SessBefore["sms_pending"] == uidPut
		if !wasPending && !w.rowHasFactor(row) {
			// not a second-factor account and nothing of it was pending: what a
			// cookie-authenticated session may do is C07's business
			return nil
		}
		if !w.rowHasFactor(row) {
			// the account's factor was removed (from another session) after
			// the password step parked this login: no second factor is
			// enabled any more, so none is owed
			w.Stats.Reach["c02_factor_removed_while_pending"]++
			return nil
		}
		rc := o.presented("recovery")
		code := o.presented("code")
		if rc != nil && rc.Value != "" {
			if rc.Known != nil && rc.Known.Kind == "recovery" && rc.Known.Acct == a && usable(rc.Status) {
				w.Stats.Reach["c02_completed_recovery"]++
			} else {
				why := "unknown"
				if rc.Known != nil {
					why = rc.Status
					if rc.Known.Acct != a {
						why = "foreign"
					}
				}
				out = append(out, viol("C02", "completed_with_bad_recovery_code", st.Kind, o,
					fmt.Sprintf("pending login of %s completed with a recovery code that is %s for it", uidPut, why), "why", why))
			}
			return out
		}
		if code == nil {
			out = append(out, viol("C02", "completed_without_code", st.Kind, o, fmt.Sprintf("pending login of %s completed without any code", uidPut)))
			return out
		}
		if st.Kind == "totp_validate" {
			switch totpVerdict(row.TOTPSecretKey, code.Value, o.Now) {
			case "fresh", "skew":
				w.Stats.Reach["c02_completed_totp"]++
			default:
				whose := "nobody"
				for oa, v := range code.TOTP {
					if v != "stale" && oa != a {
						whose = "other_account"
					}
				}
				out = append(out, viol("C02", "completed_with_bad_totp", st.Kind, o,
					fmt.Sprintf("pending login of %s completed with TOTP code %q which is not valid for its secret at %s (valid for: %s)", uidPut, code.Value, o.Now.Format("15:04:05"), whose), "whose", whose))
			}
			return out
		}
		// sms: the code must be one the gateway sent to the account's registered number
		s := code.Known
		switch {
		case s == nil || s.Kind != "sms":
			out = append(out, viol("C02", "completed_with_bad_sms", st.Kind, o,
				fmt.Sprintf("pending login of %s completed with a code the gateway never sent", uidPut), "why", "never_sent"))
		case s.Acct != a:
			// the code was not sent for this account (it may have enrolled
			// another number since its own code went out: that is still
			// its code)
			out = append(out, viol("C02", "completed_with_bad_sms", st.Kind, o,
				fmt.Sprintf("pending login of %s (registered number now %q) completed with a code that was sent to %q for another account", uidPut, row.SMSPhone, s.Number), "why", "other_number"))
		case !usable(code.Status):
			out = append(out, viol("C02", "completed_with_bad_sms", st.Kind, o,
				fmt.Sprintf("pending login of %s completed with an SMS code that is %s", uidPut, code.Status), "why", code.Status))
		default:
			w.Stats.Reach["c02_completed_sms"]++
		}
	}
	return out
}

func (c *c02Oracle) Finish(w *World) []Violation { return nil }

// c03Oracle: locked / unconfirmed accounts cannot complete a login or pass the
// lock / confirm middlewares.
type c03Oracle struct{}

func newC03Oracle(w *World) Oracle { return &c03Oracle{} }

func (c *c03Oracle) Check(w *World, o *Obs) []Violation {
	var out []Violation
	if !o.IsHTTP {
		return nil
	}
	st := o.Step
	cfg := &w.Cfg
	gate := func(row *Row) (string, bool) {
		if row == nil {
			return "", false
		}
		if cfg.hasModule("lock") && row.Locked.After(o.Now) {
			return "locked", true
		}
		if cfg.hasModule("confirm") && !row.Confirmed {
			return "unconfirmed", true
		}
		return "", false
	}
	switch st.Kind {
	case "login", "otp_login", "oauth2_callback", "recover_end", "totp_validate", "sms_validate":
		uidPut, ok := w.loginPut(o)
		if !ok || uidPut == "" {
			// reach: a gated account presenting good credentials was refused
			if at := w.classifyAttempt(o); at.kind == "primary_ok" || at.kind == "second_ok" {
				if why, g := gate(o.RowsBefore[at.pid]); g {
					w.Stats.Reach["c03_refused_"+why+"_"+st.Kind]++
				}
			}
			break
		}
		row := o.RowsBefore[uidPut]
		why, g := gate(row)
		if !g {
			w.Stats.Reach["c03_login_ok_"+st.Kind]++
			break
		}
		// attributable to the remember cookie? (half-auth sessions of locked
		// users are the middleware's business, part (b))
		a := w.acctByPID(uidPut)
		if ck := o.presented("cookie"); ck != nil && o.uidBefore() == "" && ck.Known != nil && ck.Known.Acct == a && usable(ck.Status) && o.SessAfter["halfauth"] == "true" {
			break
		}
		if strings.HasSuffix(st.Kind, "_validate") && o.uidBefore() == uidPut {
			break // already logged in before the account was gated; not a login
		}
		out = append(out, viol("C03", "gated_login_completed", st.Kind, o,
			fmt.Sprintf("%s is %s at %s yet %s ended with a logged-in session for it", uidPut, why, o.Now.Format("2006-01-02T15:04:05.999999999"), st.Kind), "why", why))
	case "probe":
		path := st.str("path")
		// the pages the guards redirect to are guarded pages too in many
		// applications (Paths.LockNotOK / ConfirmNotOK)
		switch path {
		case "/nok/lock":
			path = "/probe/lock"
		case "/nok/confirm":
			path = "/probe/confirm"
		}
		if path != "/probe/lock" && path != "/probe/confirm" {
			break
		}
		if o.Probe == nil || !o.Probe.Ran {
			if uid := o.uidBefore(); uid != "" {
				if why, g := gate(o.RowsBefore[uid]); g {
					w.Stats.Reach["c03_mw_refused_"+why]++
				}
			}
			break
		}
		row := o.RowsBefore[o.Probe.UserID]
		if row == nil {
			break
		}
		if path == "/probe/lock" && cfg.hasModule("lock") && row.Locked.After(o.Now) {
			out = append(out, viol("C03", "lock_middleware_passed", "lock.Middleware", o, fmt.Sprintf("wrapped handler ran for %s which is locked until %v", row.PID, row.Locked)))
		} else if path == "/probe/confirm" && cfg.hasModule("confirm") && !row.Confirmed {
			out = append(out, viol("C03", "confirm_middleware_passed", "confirm.Middleware", o, fmt.Sprintf("wrapped handler ran for %s which is not confirmed", row.PID)))
		} else {
			w.Stats.Reach["c03_mw_passed"]++
		}
	}
	return out
}

func (c *c03Oracle) Finish(w *World) []Violation { return nil }
