package sim

import (
	"strings"
	"time"
)

// Config is everything about a run that is fixed before the first step. It is
// drawn from the seed (swarm style) and stored in the replay file.
type Config struct {
	Modules     []string `json:"modules"` // authboss modules, in load order
	Setups      []string `json:"setups"`  // totp, sms, recovery, expire — in setup order
	JSON        bool     `json:"json"`    // JSON bodies + API responses; else forms + redirects
	UseUsername bool     `json:"use_username"`
	Mount       string   `json:"mount"`

	MailNoGoroutine bool `json:"mail_no_goroutine"`
	RecoverLogin    bool `json:"recover_login"`
	EmailAuth2FA    bool `json:"email_auth_2fa"`
	TOTPOneTime     bool `json:"totp_one_time"`
	Err500          bool `json:"err500"` // error handler writes a 500 instead of staying silent
	SMTPMailer      bool `json:"smtp_mailer"`

	LockAfter    int           `json:"lock_after"`
	LockWindow   time.Duration `json:"lock_window"`
	LockDuration time.Duration `json:"lock_duration"`
	ExpireAfter  time.Duration `json:"expire_after"`
	RecoverDur   time.Duration `json:"recover_dur"`

	Whitelist          []string `json:"whitelist"`
	LogoutMethod       string   `json:"logout_method"`
	MailRouteMethod    string   `json:"mail_route_method"`
	ResponseOnUnauthed int      `json:"response_on_unauthed"`
	Providers          []string `json:"providers"`

	// password rule for register / recover_end
	PwMinLen, PwMinUpper, PwMinLower, PwMinNum, PwMinSym int
	PwAllowSpace                                         bool

	OddPIDs bool `json:"odd_pids"`
	// NilEmptyState: the client-state stores return a nil ClientState for an
	// empty jar (the interface allows it: "WriteState can sometimes be called
	// with a nil ClientState")
	NilEmptyState    bool `json:"nil_empty_state"`
	NAccounts        int  `json:"n_accounts"`
	NBrowsers        int  `json:"n_browsers"`
	WholeSecondClock bool `json:"whole_second_clock"`
	// ExpireLate (C09 only): the site first runs without the expire module;
	// the first restart is the deployment that adds it, so sessions exist
	// that were established without an activity stamp
	ExpireLate bool `json:"expire_late,omitempty"`
	// SlowMail (C17 only): the goroutine the library starts to send a mail may
	// still be on its way while up to three later requests are served
	SlowMail bool `json:"slow_mail,omitempty"`
	// ExpireWithRemember (C09 only): expire and remember together, the
	// remember middleware outside the expire middleware
	ExpireWithRemember bool `json:"expire_with_remember,omitempty"`
	// CaseTwinPIDs: every odd account's identifier differs from its even
	// neighbour's only in the case of the first letter (the simulated user
	// store is case-sensitive)
	CaseTwinPIDs bool `json:"case_twin_pids,omitempty"`
	// ZeroTailRand: the last n bytes of every 64-byte read of the random
	// source are zero (token values on the boundary of the value space)
	ZeroTailRand int `json:"zero_tail_rand,omitempty"`
	// AppLoadsUser: an application middleware in front of the authboss routes
	// loads the current user into the request context (as the sample
	// application's data injector does)
	AppLoadsUser bool `json:"app_loads_user,omitempty"`
	// SetupBeforeInit: the application calls the Setup() functions of totp2fa,
	// sms2fa, recovery codes and expire before Authboss.Init instead of after
	SetupBeforeInit bool `json:"setup_before_init,omitempty"`
	// AppAuthHook: the application registers an After(EventAuth) handler that
	// answers every completed login itself
	AppAuthHook bool `json:"app_auth_hook,omitempty"`
	// AppLogoutHook: the application registers an After(EventLogout) handler
	// that answers the request itself (a redirect to a single-sign-out page)
	AppLogoutHook bool `json:"app_logout_hook,omitempty"`
	// OAuth2ExtraParams: the providers are configured with AdditionalParams
	OAuth2ExtraParams bool `json:"oauth2_extra_params,omitempty"`
	// DBZoneOffset (seconds east of UTC): the user store hands time values back
	// in this zone (same instants), as database drivers with a session time
	// zone do. 0 = as stored.
	DBZoneOffset int `json:"db_zone_offset,omitempty"`
	// SecondSite: the process hosts a second, independent authboss instance
	// (initialised after the first, same modules, its own user store in which
	// the same identifiers have other passwords and no lock, confirmation or
	// second factor). No request is ever routed to it.
	SecondSite bool `json:"second_site,omitempty"`

	// Accounts pre-provisioned by the harness before the first step.
	Accounts []AcctSpec `json:"accounts"`
}

// AcctSpec describes a pre-provisioned account.
type AcctSpec struct {
	Confirmed bool   `json:"confirmed"`
	TOTP      bool   `json:"totp"`
	SMS       bool   `json:"sms"`
	OTPs      int    `json:"otps"`
	Secondary int    `json:"secondary"`
	Password  string `json:"password"`
}

func (c *Config) hasModule(m string) bool {
	for _, x := range c.Modules {
		if x == m {
			return true
		}
	}
	return false
}

func (c *Config) hasSetup(m string) bool {
	for _, x := range c.Setups {
		if x == m {
			return true
		}
	}
	return false
}

// appKeys are the session keys the simulated application itself uses.
var appKeys = []string{"app_theme", "app_cart", "app_other", "app_theme2", "guid"}

var allModules = []string{"auth", "confirm", "lock", "logout", "oauth2", "otp", "recover", "register", "remember"}

// durationsAround returns candidate gaps clustered around a threshold.
func durationsAround(r *Rng, th time.Duration) time.Duration {
	switch r.Intn(8) {
	case 0:
		return th
	case 1:
		return th - time.Nanosecond
	case 2:
		return th + time.Nanosecond
	case 3:
		return th - time.Second
	case 4:
		return th + time.Second
	case 5:
		return r.Dur(0, th/2)
	case 6:
		return th + r.Dur(time.Second, th)
	default:
		return r.Dur(th/2, th*3/2)
	}
}

func pickDuration(r *Rng) time.Duration {
	opts := []time.Duration{
		2 * time.Second, 7 * time.Second, 30 * time.Second, time.Minute, 5 * time.Minute,
		17 * time.Minute, time.Hour, 12 * time.Hour, 24 * time.Hour, 72 * time.Hour,
	}
	d := opts[r.Intn(len(opts))]
	if r.Chance(1, 4) {
		d += r.Dur(0, d/3)
	}
	return d
}

// baseConfig draws a full random configuration; property profiles then
// constrain it.
func baseConfig(r *Rng) Config {
	c := Config{}
	// module subset: auth always (most flows need it); others by coin.
	mods := []string{"auth"}
	for _, m := range allModules[1:] {
		if r.Chance(3, 4) {
			mods = append(mods, m)
		}
	}
	// random load order
	p := r.Perm(len(mods))
	for _, i := range p {
		c.Modules = append(c.Modules, mods[i])
	}
	var setups []string
	for _, s := range []string{"totp", "sms", "recovery"} {
		if r.Chance(2, 3) {
			setups = append(setups, s)
		}
	}
	p = r.Perm(len(setups))
	for _, i := range p {
		c.Setups = append(c.Setups, setups[i])
	}
	c.JSON = r.Chance(1, 3)
	c.UseUsername = r.Chance(1, 5)
	c.Mount = []string{"/auth", "/auth", "/x/y", ""}[r.Intn(4)]
	c.MailNoGoroutine = r.Chance(1, 3)
	c.RecoverLogin = r.Bool()
	c.EmailAuth2FA = r.Chance(1, 3)
	c.TOTPOneTime = r.Bool()
	c.Err500 = r.Chance(1, 3)
	c.LockAfter = 1 + r.Intn(5)
	c.LockWindow = pickDuration(r)
	c.LockDuration = pickDuration(r)
	c.ExpireAfter = pickDuration(r)
	c.RecoverDur = pickDuration(r)
	// whitelists: none, plain, and ones whose names contain one another or the
	// name of a key authboss itself keeps in the session ("guid" ⊃ "uid")
	switch r.Intn(7) {
	case 0, 1, 2:
	case 3:
		c.Whitelist = []string{"app_theme"}
	case 4:
		c.Whitelist = []string{"app_theme", "app_cart"}
	case 5:
		c.Whitelist = []string{"app_theme2", "app_theme"}
		if r.Bool() {
			c.Whitelist = append(c.Whitelist, "app_cart")
		}
	default:
		c.Whitelist = []string{"app_cart", "guid"}
		if r.Bool() {
			c.Whitelist = []string{"guid"}
		}
	}
	c.LogoutMethod = []string{"DELETE", "POST", "GET"}[r.Intn(3)]
	c.MailRouteMethod = "GET"
	if c.JSON {
		// with JSON bodies a GET has no body to read the token from
		c.MailRouteMethod = "POST"
	}
	c.ResponseOnUnauthed = r.Intn(3)
	c.Providers = []string{"google"}
	if r.Bool() {
		c.Providers = append(c.Providers, "fb2")
	}
	c.PwMinLen, c.PwMinUpper, c.PwMinLower, c.PwMinNum, c.PwMinSym = 8, 1, 1, 1, 1
	c.NAccounts = 2 + r.Intn(3)
	c.NBrowsers = 2 + r.Intn(3)
	c.WholeSecondClock = r.Bool()
	c.NilEmptyState = r.Chance(1, 3)
	c.SecondSite = r.Chance(1, 3)
	c.OAuth2ExtraParams = r.Bool()
	c.AppLogoutHook = r.Chance(1, 4)
	c.AppLoadsUser = r.Chance(1, 3)
	c.SetupBeforeInit = r.Chance(1, 4)
	c.CaseTwinPIDs = !c.OddPIDs && r.Chance(1, 5)
	if r.Chance(1, 6) {
		c.ZeroTailRand = 1 + r.Intn(3)
	}
	c.AppAuthHook = r.Chance(1, 6)
	if r.Chance(1, 3) {
		c.DBZoneOffset = []int{3 * 3600, -5 * 3600, 5*3600 + 45*60, 14 * 3600, -11 * 3600}[r.Intn(5)]
	}
	for i := 0; i < c.NAccounts; i++ {
		a := AcctSpec{Confirmed: r.Chance(5, 6)}
		if c.hasSetup("totp") && r.Chance(1, 3) {
			a.TOTP = true
		}
		if c.hasSetup("sms") && r.Chance(1, 3) {
			a.SMS = true
		}
		if c.hasModule("otp") && r.Chance(1, 2) {
			a.OTPs = 1 + r.Intn(3)
		}
		if r.Chance(1, 4) {
			a.Secondary = 1 + r.Intn(2)
		}
		if r.Chance(1, 6) {
			// a password at bcrypt's 72 byte limit: in bytes only, or also in characters
			a.Password = []string{"Aa1!" + strings.Repeat("é", 34), strings.Repeat("Aa1!", 18), strings.Repeat("é", 36)}[r.Intn(3)]
		}
		c.Accounts = append(c.Accounts, a)
	}
	return c
}

func (c *Config) ensureModules(ms ...string) {
	for _, m := range ms {
		if !c.hasModule(m) {
			c.Modules = append(c.Modules, m)
		}
	}
}

func (c *Config) dropModules(ms ...string) {
	var keep []string
	for _, x := range c.Modules {
		drop := false
		for _, m := range ms {
			if x == m {
				drop = true
			}
		}
		if !drop {
			keep = append(keep, x)
		}
	}
	c.Modules = keep
}

func (c *Config) ensureSetups(ss ...string) {
	for _, s := range ss {
		if !c.hasSetup(s) {
			c.Setups = append(c.Setups, s)
		}
	}
}

func (c *Config) dropSetups(ss ...string) {
	var keep []string
	for _, x := range c.Setups {
		drop := false
		for _, m := range ss {
			if x == m {
				drop = true
			}
		}
		if !drop {
			keep = append(keep, x)
		}
	}
	c.Setups = keep
}
