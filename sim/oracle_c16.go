package sim

import (
	"fmt"
	"sort"
	"strings"
	"testing"
	"time"

	"github.com/volatiletech/authboss/v3"
)

// C16: responses leak neither password correctness when locked nor account
// existence. Fork runs: the same plan prefix is executed in two fresh worlds
// from the same seed; the two continuations differ in exactly one thing and
// the client-observable outcome is compared byte by byte.

// observable renders what the client can see of the final response.
func observable(o *Obs, redact []string) map[string]string {
	red := func(s string) string {
		for i, r := range redact {
			if r != "" {
				s = strings.ReplaceAll(s, r, fmt.Sprintf("<in%d>", i))
			}
		}
		return s
	}
	m := map[string]string{"status": fmt.Sprint(o.Status), "body": red(o.Body)}
	var hk []string
	for k := range o.Header {
		hk = append(hk, k)
	}
	sort.Strings(hk)
	var hs []string
	for _, k := range hk {
		hs = append(hs, k+": "+strings.Join(o.Header[k], ","))
	}
	m["headers"] = red(strings.Join(hs, "\n"))
	evs := func(l []authboss.ClientStateEvent) string {
		var sb strings.Builder
		for _, e := range l {
			fmt.Fprintf(&sb, "[%d %q %q]", e.Kind, e.Key, e.Value)
		}
		return sb.String()
	}
	m["session_changes"] = red(evs(o.SessEvents))
	m["cookie_changes"] = red(evs(o.CookEvents))
	m["session_after"] = red(canonMap(o.SessAfter))
	m["cookies_after"] = red(canonMap(o.CookAfter))
	return m
}

// c16Exec runs prefix + twin step twice. The last step of the plan has kind
// "twin"; its Str says which scenario and which accounts.
func c16Exec(t *testing.T, plan Plan, keepTrace bool) *RunResult {
	res := &RunResult{Plan: plan, Stats: newStats()}
	dg := newDigester(keepTrace)
	if len(plan.Steps) == 0 || plan.Steps[len(plan.Steps)-1].Kind != "twin" {
		res.Digest = dg.sum()
		return res
	}
	tw := plan.Steps[len(plan.Steps)-1]
	prefix := plan.Steps[:len(plan.Steps)-1]
	var obs [2]map[string]string
	var precond [2]string
	var harnessPanic interface{}
	for side := 0; side < 2; side++ {
		side := side
		func() {
			defer func() {
				if r := recover(); r != nil {
					harnessPanic = r
				}
			}()
			bubble(t, func(t *testing.T) {
				w := NewWorld(t, plan.Cfg, plan.Seed, false)
				defer w.Close()
				defer func() { w.sched.afterRequest(w) }()
				n := 0
				for i := range prefix {
					st := prefix[i]
					o := w.Exec(n, &st)
					dg.line("side %d", side)
					dg.obs(w, o)
					w.kbUpdate(o)
					w.Stats.Steps++
					n++
				}
				if tw.Gap > 0 {
					time.Sleep(tw.Gap)
				}
				st, pre, redact := c16Final(w, tw, side)
				if v := tw.str("redir"); v != "" {
					if st.Str == nil {
						st.Str = map[string]string{}
					} else {
						st.Str = copyMap(st.Str)
					}
					st.Str["redir"] = v
				}
				precond[side] = pre
				if pre != "" {
					return
				}
				o := w.Exec(n, &st)
				dg.line("side %d final", side)
				dg.obs(w, o)
				obs[side] = observable(o, redact)
				res.Stats.merge(w.Stats)
				if side == 0 {
					res.EndState = tw.str("scenario") + "|" + w.abstractState()
				}
			})
		}()
		if harnessPanic != nil {
			panic(fmt.Sprintf("harness panic in C16 run seed=%d: %v", plan.Seed, harnessPanic))
		}
	}
	sc := tw.str("scenario")
	if precond[0] != "" || precond[1] != "" {
		res.Stats.Reach["c16_precondition_unmet_"+sc]++
		dg.line("precondition unmet: %s / %s", precond[0], precond[1])
	} else {
		res.Nontrivial = true
		res.Stats.Reach["c16_pair_compared_"+sc]++
		var keys []string
		for k := range obs[0] {
			keys = append(keys, k)
		}
		sort.Strings(keys)
		for _, k := range keys {
			if obs[0][k] != obs[1][k] {
				v := viol("C16", sc+"_differs", k, nil,
					fmt.Sprintf("scenario %s: observable %q differs between the two continuations:\n      A: %s\n      B: %s", sc, k, clip(obs[0][k], 300), clip(obs[1][k], 300)))
				v.Step = len(plan.Steps) - 1
				res.Violations = append(res.Violations, v)
				dg.line("VIOLATION %s :: %s", v.Sig(), v.Detail)
			}
		}
	}
	res.Digest = dg.sum()
	res.Trace = dg.trace
	return res
}

// c16Final builds the continuation for one side and checks the scenario's
// precondition against the world the prefix produced.
func c16Final(w *World, tw Step, side int) (Step, string, []string) {
	a := tw.A
	b := tw.B
	if a < 0 || a >= len(w.Accts) {
		return Step{}, "no such account", nil
	}
	acct := w.Accts[a]
	row := w.DB.rows[acct.PID]
	if row == nil {
		return Step{}, "account deleted", nil
	}
	cfg := &w.Cfg
	now := time.Now()
	wrong := tw.str("wrong")
	ghost := tw.str("ghost")
	switch tw.str("scenario") {
	case "a": // correct vs incorrect password for a locked, confirmed account
		if !cfg.hasModule("lock") || !row.Locked.After(now) {
			return Step{}, "account not locked", nil
		}
		if cfg.hasModule("confirm") && !row.Confirmed {
			return Step{}, "account not confirmed", nil
		}
		good := w.KB.Password[a]
		if good == "" || !pwMatches(row.Password, good) || pwMatches(row.Password, wrong) {
			return Step{}, "password unknown", nil
		}
		st := Step{Kind: "login", B: b, A: a, Sec: &SecretRef{Kind: "literal", Lit: good}}
		if side == 1 {
			st.Sec = &SecretRef{Kind: "literal", Lit: wrong}
		}
		return st, "", []string{good, wrong}
	case "b": // recovery request naming an existing vs a non-existing account
		if !cfg.hasModule("recover") {
			return Step{}, "recover not loaded", nil
		}
		if w.DB.rows[ghost] != nil {
			return Step{}, "ghost exists", nil
		}
		st := Step{Kind: "recover_start", B: b, A: a}
		if side == 1 {
			st.A = -1
			st.Str = map[string]string{"pid": ghost}
		}
		if site := tw.str("mailfault"); site != "" {
			st.Fault = &FaultDirective{Site: site, Index: 0, Kind: "err"}
		}
		return st, "", []string{acct.PID, ghost}
	case "c": // failed login: unknown account vs known account with a wrong password
		if w.DB.rows[ghost] != nil {
			return Step{}, "ghost exists", nil
		}
		knownPID := acct.PID
		if tw.str("oauthacct") != "" {
			// the known account is one an OAuth2 login created: it has no password at all
			knownPID = ""
			for _, pid := range w.DB.order {
				if r := w.DB.rows[pid]; r != nil && r.OAuth2Provider != "" {
					knownPID, row = pid, r
					break
				}
			}
			if knownPID == "" {
				return Step{}, "no oauth2 account", nil
			}
		}
		if pwMatches(row.Password, wrong) {
			return Step{}, "wrong password is right", nil
		}
		if cfg.hasModule("lock") {
			if row.Locked.After(now) || row.Locked.Equal(now) {
				return Step{}, "known account locked", nil
			}
			// the attempt must not lock it
			next := row.AttemptCount + 1
			if now.Sub(row.LastAttempt) > cfg.LockWindow {
				next = 1
			}
			if next >= cfg.LockAfter || now.Sub(row.LastAttempt) == cfg.LockWindow {
				return Step{}, "attempt would lock", nil
			}
		}
		kind := "login"
		if tw.str("path") == "otp" && cfg.hasModule("otp") {
			kind = "otp_login"
		}
		st := Step{Kind: kind, B: b, A: a, Sec: &SecretRef{Kind: "literal", Lit: wrong}}
		if knownPID != acct.PID {
			st.A = -1
			st.Str = map[string]string{"pid": knownPID}
		}
		if side == 1 {
			st.A = -1
			st.Str = map[string]string{"pid": ghost}
		}
		return st, "", []string{knownPID, ghost}
	}
	return Step{}, "unknown scenario", nil
}

func c16Generate(seed uint64, tier string) Plan {
	r := NewRng(seed)
	cr := r.Fork(1)
	c := baseConfig(cr)
	c.dropSetups("expire")
	sc := []string{"a", "b", "c"}[r.Intn(3)]
	switch sc {
	case "a":
		c.ensureModules("lock", "auth")
	case "b":
		c.ensureModules("recover")
	case "c":
		if r.Bool() {
			c.ensureModules("lock")
			if c.LockAfter < 2 {
				c.LockAfter = 2 + r.Intn(3)
			}
		}
	}
	c.EmailAuth2FA = false
	for i := range c.Accounts {
		c.Accounts[i].Confirmed = c.Accounts[i].Confirmed || sc == "a"
	}
	return Plan{Prop: "C16", Seed: seed, Tier: tier, Mode: "c16", Cfg: c, Extra: []byte(fmt.Sprintf("%q", sc))}
}

func c16Run(t *testing.T, seed uint64, tier string) *RunResult {
	plan := c16Generate(seed, tier)
	sc := strings.Trim(string(plan.Extra), `"`)
	r := NewRng(seed).Fork(7)
	// phase 1: generate the prefix by actually running it (state-aware generator)
	gp := &genProfile{MaxSteps: r.Intn(steps(tier, 16, 40)), Default: 1, FollowUp: 50, Template: 30,
		Templates: []string{"fail_burst", "login_ok", "lock_then_wait", "op_lock_cycle", "recover_flow"},
		Weights:   map[string]int{"login": 20, "otp_login": 6, "op_lock": 4, "op_unlock": 2, "recover_start": 5, "advance": 5, "logout": 4, "register": 2, "op_update_password": 2},
		BadSecret: 50, ThreshGaps: 20, SmallGaps: 20,
		Thresholds: func(c *Config) []time.Duration { return []time.Duration{c.LockWindow, c.LockDuration} }}
	gr := r.Fork(8)
	pre := runSequence(t, plan, func(w *World) Generator { return newCommonGen(gr, gp, w) }, func(w *World) Oracle { return oracleSet{} }, false)
	plan.Steps = pre.Plan.Steps
	a := r.Intn(plan.Cfg.NAccounts)
	tw := Step{Kind: "twin", B: r.Intn(plan.Cfg.NBrowsers), A: a, Str: map[string]string{
		"scenario": sc, "wrong": fmt.Sprintf("Wr0ng-pass!%d", r.Intn(1000)), "ghost": fmt.Sprintf("ghost%d@nowhere.io", r.Intn(100))}}
	if plan.Cfg.UseUsername {
		tw.Str["ghost"] = fmt.Sprintf("ghost%d", r.Intn(100))
	}
	if r.Chance(1, 3) {
		tw.Str["path"] = "otp"
	}
	if r.Chance(1, 3) {
		tw.Str["redir"] = []string{"/after/login", "/welcome?x=1", "relative"}[r.Intn(3)]
	}
	if sc == "c" && plan.Cfg.hasModule("oauth2") && r.Chance(1, 3) {
		// make sure an OAuth2-created account exists and use it as the known one
		prov := plan.Cfg.Providers[0]
		plan.Steps = append(plan.Steps, Step{Kind: "oauth2_start", B: tw.B, Str: map[string]string{"provider": prov}},
			Step{Kind: "oauth2_callback", B: tw.B, A: a, Sec: &SecretRef{Kind: "state", A: -1, Idx: -1}, Str: map[string]string{"provider": prov, "code": "fresh"}},
			Step{Kind: "drop_session", B: tw.B})
		tw.Str["oauthacct"] = "1"
		delete(tw.Str, "path")
	}
	if sc == "b" && r.Chance(1, 4) {
		// the mail system is down while both requests are made
		tw.Str["mailfault"] = []string{"mail.send", "render.mail"}[r.Intn(2)]
	}
	if sc == "a" {
		// make sure the account is locked: by the operator or by failures
		if r.Bool() {
			plan.Steps = append(plan.Steps, Step{Kind: "op_lock", B: tw.B, A: a})
		} else {
			for i := 0; i < plan.Cfg.LockAfter; i++ {
				plan.Steps = append(plan.Steps, Step{Kind: "login", B: tw.B, A: a, Sec: &SecretRef{Kind: "literal", Lit: "N0pe-nope!"}})
			}
		}
		if r.Chance(1, 3) {
			tw.Gap = durationsAround(r, plan.Cfg.LockDuration)
			if tw.Gap < 0 {
				tw.Gap = 0
			}
		}
	}
	if sc == "c" && plan.Cfg.hasModule("lock") && tw.Str["oauthacct"] == "" && r.Chance(1, 3) {
		// the known account has a history: it was locked out by failures and
		// the lock has run out since, as has the counting window
		for i := 0; i < plan.Cfg.LockAfter+r.Intn(2); i++ {
			plan.Steps = append(plan.Steps, Step{Kind: "login", B: tw.B, A: a, Sec: &SecretRef{Kind: "literal", Lit: "N0pe-nope!"}})
		}
		wait := plan.Cfg.LockDuration
		if plan.Cfg.LockWindow > wait {
			wait = plan.Cfg.LockWindow
		}
		tw.Gap = wait + r.Dur(time.Second, time.Hour)
	}
	plan.Steps = append(plan.Steps, tw)
	return c16Exec(t, plan, false)
}

func init() {
	register(&Profile{
		ID:            "C16",
		Run:           c16Run,
		Replay:        c16Exec,
		RequiredReach: []string{"c16_pair_compared_a", "c16_pair_compared_b", "c16_pair_compared_c"},
	})
}
