package sim

import (
	"context"
	"errors"
	"fmt"
	"sort"
	"strings"
	"sync"
	"sync/atomic"
	"time"

	"github.com/volatiletech/authboss/v3"
)

// Row is one account as a database would hold it. It implements every user
// interface of every module.
type Row struct {
	PID      string
	Email    string
	Password string

	Confirmed       bool
	ConfirmSelector string
	ConfirmVerifier string

	AttemptCount int
	LastAttempt  time.Time
	Locked       time.Time

	RecoverSelector string
	RecoverVerifier string
	RecoverExpiry   time.Time
	Secondary       []string

	OTPs          string
	TOTPSecretKey string
	TOTPLastCode  string
	SMSPhone      string
	RecoveryCodes string

	OAuth2UID      string
	OAuth2Provider string
	OAuth2Token    string
	OAuth2Refresh  string
	OAuth2Expiry   time.Time

	Arbitrary map[string]string

	// ArbitrarySeen is what PutArbitrary was last called with (oracle only,
	// not part of the stored row).
	arbitrarySeen map[string]string
}

func (r *Row) clone() *Row {
	c := *r
	c.Secondary = append([]string(nil), r.Secondary...)
	if r.Arbitrary != nil {
		c.Arbitrary = map[string]string{}
		for k, v := range r.Arbitrary {
			c.Arbitrary[k] = v
		}
	}
	return &c
}

// canon is the canonical serialisation used for diffs and digests.
func (r *Row) canon() string {
	var ks []string
	for k := range r.Arbitrary {
		ks = append(ks, k)
	}
	sort.Strings(ks)
	var arb []string
	for _, k := range ks {
		arb = append(arb, k+"="+r.Arbitrary[k])
	}
	return fmt.Sprintf("pid=%q email=%q pw=%q conf=%v csel=%q cver=%q att=%d last=%d locked=%d rsel=%q rver=%q rexp=%d sec=%q otps=%q totp=%q totplast=%q sms=%q rc=%q ouid=%q oprov=%q otok=%q oref=%q oexp=%d arb=%q",
		r.PID, r.Email, r.Password, r.Confirmed, r.ConfirmSelector, r.ConfirmVerifier,
		r.AttemptCount, tnano(r.LastAttempt), tnano(r.Locked), r.RecoverSelector, r.RecoverVerifier, tnano(r.RecoverExpiry),
		r.Secondary, r.OTPs, r.TOTPSecretKey, r.TOTPLastCode, r.SMSPhone, r.RecoveryCodes,
		r.OAuth2UID, r.OAuth2Provider, r.OAuth2Token, r.OAuth2Refresh, tnano(r.OAuth2Expiry), arb)
}

func tnano(t time.Time) int64 {
	if t.IsZero() {
		return 0
	}
	return t.UnixNano()
}

// fields lists every stored string field (for the C17 scanner).
func (r *Row) fields() map[string]string {
	m := map[string]string{
		"pid": r.PID, "email": r.Email, "password": r.Password,
		"confirm_selector": r.ConfirmSelector, "confirm_verifier": r.ConfirmVerifier,
		"recover_selector": r.RecoverSelector, "recover_verifier": r.RecoverVerifier,
		"otps": r.OTPs, "totp_secret": r.TOTPSecretKey, "totp_last": r.TOTPLastCode,
		"sms_phone": r.SMSPhone, "recovery_codes": r.RecoveryCodes,
		"oauth2_uid": r.OAuth2UID, "oauth2_provider": r.OAuth2Provider,
		"oauth2_token": r.OAuth2Token, "oauth2_refresh": r.OAuth2Refresh,
	}
	for k, v := range r.Arbitrary {
		m["arb."+k] = v
	}
	return m
}

// --- authboss user interfaces ------------------------------------------------

func (r *Row) GetPID() string                 { return r.PID }
func (r *Row) PutPID(s string)                { r.PID = s }
func (r *Row) GetPassword() string            { return r.Password }
func (r *Row) PutPassword(s string)           { r.Password = s }
func (r *Row) GetEmail() string               { return r.Email }
func (r *Row) PutEmail(s string)              { r.Email = s }
func (r *Row) GetConfirmed() bool             { return r.Confirmed }
func (r *Row) PutConfirmed(b bool)            { r.Confirmed = b }
func (r *Row) GetConfirmSelector() string     { return r.ConfirmSelector }
func (r *Row) PutConfirmSelector(s string)    { r.ConfirmSelector = s }
func (r *Row) GetConfirmVerifier() string     { return r.ConfirmVerifier }
func (r *Row) PutConfirmVerifier(s string)    { r.ConfirmVerifier = s }
func (r *Row) GetAttemptCount() int           { return r.AttemptCount }
func (r *Row) PutAttemptCount(n int)          { r.AttemptCount = n }
func (r *Row) GetLastAttempt() time.Time      { return r.LastAttempt }
func (r *Row) PutLastAttempt(t time.Time)     { r.LastAttempt = t }
func (r *Row) GetLocked() time.Time           { return r.Locked }
func (r *Row) PutLocked(t time.Time)          { r.Locked = t }
func (r *Row) GetRecoverSelector() string     { return r.RecoverSelector }
func (r *Row) PutRecoverSelector(s string)    { r.RecoverSelector = s }
func (r *Row) GetRecoverVerifier() string     { return r.RecoverVerifier }
func (r *Row) PutRecoverVerifier(s string)    { r.RecoverVerifier = s }
func (r *Row) GetRecoverExpiry() time.Time    { return r.RecoverExpiry }
func (r *Row) PutRecoverExpiry(t time.Time)   { r.RecoverExpiry = t }
func (r *Row) GetSecondaryEmails() []string   { return append([]string(nil), r.Secondary...) }
func (r *Row) GetOTPs() string                { return r.OTPs }
func (r *Row) PutOTPs(s string)               { r.OTPs = s }
func (r *Row) GetTOTPSecretKey() string       { return r.TOTPSecretKey }
func (r *Row) PutTOTPSecretKey(s string)      { r.TOTPSecretKey = s }
func (r *Row) GetSMSPhoneNumber() string      { return r.SMSPhone }
func (r *Row) PutSMSPhoneNumber(s string)     { r.SMSPhone = s }
func (r *Row) GetRecoveryCodes() string       { return r.RecoveryCodes }
func (r *Row) PutRecoveryCodes(s string)      { r.RecoveryCodes = s }
func (r *Row) IsOAuth2User() bool             { return r.OAuth2UID != "" }
func (r *Row) GetOAuth2UID() string           { return r.OAuth2UID }
func (r *Row) PutOAuth2UID(s string)          { r.OAuth2UID = s }
func (r *Row) GetOAuth2Provider() string      { return r.OAuth2Provider }
func (r *Row) PutOAuth2Provider(s string)     { r.OAuth2Provider = s }
func (r *Row) GetOAuth2AccessToken() string   { return r.OAuth2Token }
func (r *Row) PutOAuth2AccessToken(s string)  { r.OAuth2Token = s }
func (r *Row) GetOAuth2RefreshToken() string  { return r.OAuth2Refresh }
func (r *Row) PutOAuth2RefreshToken(s string) { r.OAuth2Refresh = s }
func (r *Row) GetOAuth2Expiry() time.Time     { return r.OAuth2Expiry }
func (r *Row) PutOAuth2Expiry(t time.Time)    { r.OAuth2Expiry = t }
func (r *Row) GetArbitrary() map[string]string {
	m := map[string]string{}
	for k, v := range r.Arbitrary {
		m[k] = v
	}
	return m
}

// PutArbitrary keeps only the application's own keys, as the interface
// documentation tells the consumer to do.
func (r *Row) PutArbitrary(a map[string]string) {
	r.arbitrarySeen = map[string]string{}
	for k, v := range a {
		r.arbitrarySeen[k] = v
	}
	if v, ok := a["email"]; ok && r.Email == "" {
		r.Email = v
	}
	if v, ok := a["name"]; ok {
		if r.Arbitrary == nil {
			r.Arbitrary = map[string]string{}
		}
		r.Arbitrary["name"] = v
	}
}

// RowOT is the user type with TOTP replay protection (implements
// totp2fa.UserOneTime).
type RowOT struct{ *Row }

func (r RowOT) GetTOTPLastCode() string  { return r.TOTPLastCode }
func (r RowOT) PutTOTPLastCode(s string) { r.Row.TOTPLastCode = s }

func rowOf(u authboss.User) *Row {
	switch x := u.(type) {
	case *Row:
		return x
	case RowOT:
		return x.Row
	case *RowOT:
		return x.Row
	}
	panic(fmt.Sprintf("sim: foreign user type %T", u))
}

// --- database ------------------------------------------------------------------

var errInjected = errors.New("sim: injected backend failure")

// injectedErr is what a failing storage call returns. Real stores fail in
// different shapes: a plain error, a query time limit or a cancelled driver
// context (errors wrapping the context errors although the request itself is
// alive), a network timeout. The shape rotates with the number of failures.
func (w *World) injectedErr() error {
	switch atomic.AddInt64(&w.errN, 1) % 4 {
	case 1:
		return errInjected
	case 2:
		return fmt.Errorf("sim: query time limit reached: %w", context.DeadlineExceeded)
	case 3:
		return fmt.Errorf("sim: driver: %w", context.Canceled)
	}
	return simTimeout{}
}

type simTimeout struct{}

func (simTimeout) Error() string   { return "sim: i/o timeout talking to the database" }
func (simTimeout) Timeout() bool   { return true }
func (simTimeout) Temporary() bool { return true }

type rmToken struct{ pid, hash string }

// DB is the simulated database. Copy semantics on every boundary; every call
// is a numbered seam call subject to fault injection.
type DB struct {
	mu   sync.Mutex // a database round trip is a real synchronisation point
	w    *World
	rows map[string]*Row
	// order keeps insertion order so that scans are deterministic.
	order []string
	rm    []rmToken
	// second: the user store of the unrelated second site (no seams)
	second bool
}

func (d *DB) seam(site, arg string) faultKind {
	if d.second {
		d.w.Stats.Reach["second_site_store_used"]++
		return faultNone
	}
	return d.w.seam(site, arg)
}

func newDB(w *World) *DB { return &DB{w: w, rows: map[string]*Row{}} }

func (d *DB) wrap(r *Row) authboss.User {
	if off := d.w.Cfg.DBZoneOffset; off != 0 && !d.second {
		// like an SQL driver configured with a session time zone: the same
		// instants, expressed in another location
		loc := time.FixedZone("dbzone", off)
		r.LastAttempt, r.Locked = r.LastAttempt.In(loc), r.Locked.In(loc)
		r.RecoverExpiry, r.OAuth2Expiry = r.RecoverExpiry.In(loc), r.OAuth2Expiry.In(loc)
	}
	if d.w.Cfg.TOTPOneTime {
		return RowOT{r}
	}
	return r
}

func (d *DB) put(r *Row) {
	d.mu.Lock()
	defer d.mu.Unlock()
	d.putNL(r)
}

func (d *DB) putNL(r *Row) {
	if _, ok := d.rows[r.PID]; !ok {
		d.order = append(d.order, r.PID)
	}
	d.rows[r.PID] = r.clone()
}

func (d *DB) get(pid string) *Row {
	d.mu.Lock()
	defer d.mu.Unlock()
	return d.getNL(pid)
}

func (d *DB) getNL(pid string) *Row {
	r, ok := d.rows[pid]
	if !ok {
		return nil
	}
	return r.clone()
}

func (d *DB) delete(pid string) {
	delete(d.rows, pid)
	for i, p := range d.order {
		if p == pid {
			d.order = append(d.order[:i:i], d.order[i+1:]...)
			break
		}
	}
	var keep []rmToken
	for _, t := range d.rm {
		if t.pid != pid {
			keep = append(keep, t)
		}
	}
	d.rm = keep
}

func (d *DB) snapshot() map[string]string {
	m := make(map[string]string, len(d.rows))
	for k, v := range d.rows {
		m[k] = v.canon()
	}
	return m
}

func (d *DB) rmSnapshot() []string {
	var s []string
	for _, t := range d.rm {
		s = append(s, t.pid+"|"+t.hash)
	}
	sort.Strings(s)
	return s
}

func (d *DB) canon() string {
	var sb strings.Builder
	for _, p := range d.order {
		sb.WriteString(d.rows[p].canon())
		sb.WriteByte('\n')
	}
	sb.WriteString(strings.Join(d.rmSnapshot(), ","))
	return sb.String()
}

func (d *DB) Load(ctx context.Context, key string) (authboss.User, error) {
	switch d.seam("db.Load", key) {
	case faultErr:
		return nil, d.w.injectedErr()
	case faultNotFound:
		return nil, authboss.ErrUserNotFound
	}
	r := d.get(key)
	if r == nil {
		return nil, authboss.ErrUserNotFound
	}
	return d.wrap(r), nil
}

func (d *DB) Save(ctx context.Context, user authboss.User) error {
	r := rowOf(user)
	switch d.seam("db.Save", r.PID) {
	case faultErr:
		return d.w.injectedErr()
	case faultNotFound:
		return authboss.ErrUserNotFound
	}
	d.mu.Lock()
	defer d.mu.Unlock()
	if _, ok := d.rows[r.PID]; !ok {
		return authboss.ErrUserNotFound
	}
	d.putNL(r)
	return nil
}

func (d *DB) New(ctx context.Context) authboss.User {
	d.seam("db.New", "")
	return d.wrap(&Row{})
}

func (d *DB) Create(ctx context.Context, user authboss.User) error {
	r := rowOf(user)
	switch d.seam("db.Create", r.PID) {
	case faultErr:
		return d.w.injectedErr()
	case faultFound:
		return authboss.ErrUserFound
	}
	d.mu.Lock()
	defer d.mu.Unlock()
	if _, ok := d.rows[r.PID]; ok {
		return authboss.ErrUserFound
	}
	if r.Email == "" && !d.w.Cfg.UseUsername {
		r.Email = r.PID
	}
	d.putNL(r)
	return nil
}

func (d *DB) LoadByConfirmSelector(ctx context.Context, selector string) (authboss.ConfirmableUser, error) {
	switch d.seam("db.LoadByConfirmSelector", "") {
	case faultErr:
		return nil, d.w.injectedErr()
	case faultNotFound:
		return nil, authboss.ErrUserNotFound
	}
	d.mu.Lock()
	defer d.mu.Unlock()
	if selector != "" {
		for _, p := range d.order {
			if d.rows[p].ConfirmSelector == selector {
				return d.wrap(d.rows[p].clone()).(authboss.ConfirmableUser), nil
			}
		}
	}
	return nil, authboss.ErrUserNotFound
}

func (d *DB) LoadByRecoverSelector(ctx context.Context, selector string) (authboss.RecoverableUser, error) {
	switch d.seam("db.LoadByRecoverSelector", "") {
	case faultErr:
		return nil, d.w.injectedErr()
	case faultNotFound:
		return nil, authboss.ErrUserNotFound
	}
	d.mu.Lock()
	defer d.mu.Unlock()
	if selector != "" {
		for _, p := range d.order {
			if d.rows[p].RecoverSelector == selector {
				return d.wrap(d.rows[p].clone()).(authboss.RecoverableUser), nil
			}
		}
	}
	return nil, authboss.ErrUserNotFound
}

func (d *DB) AddRememberToken(ctx context.Context, pid, token string) error {
	if d.seam("db.AddRememberToken", pid) == faultErr {
		return d.w.injectedErr()
	}
	d.mu.Lock()
	defer d.mu.Unlock()
	d.rm = append(d.rm, rmToken{pid, token})
	return nil
}

func (d *DB) DelRememberTokens(ctx context.Context, pid string) error {
	if d.seam("db.DelRememberTokens", pid) == faultErr {
		return d.w.injectedErr()
	}
	d.mu.Lock()
	defer d.mu.Unlock()
	var keep []rmToken
	for _, t := range d.rm {
		if t.pid != pid {
			keep = append(keep, t)
		}
	}
	d.rm = keep
	return nil
}

func (d *DB) UseRememberToken(ctx context.Context, pid, token string) error {
	switch d.seam("db.UseRememberToken", pid) {
	case faultErr:
		return d.w.injectedErr()
	case faultNotFound:
		return authboss.ErrTokenNotFound
	}
	d.mu.Lock()
	defer d.mu.Unlock()
	for i, t := range d.rm {
		if t.pid == pid && t.hash == token {
			d.rm = append(d.rm[:i:i], d.rm[i+1:]...)
			return nil
		}
	}
	return authboss.ErrTokenNotFound
}

func (d *DB) NewFromOAuth2(ctx context.Context, provider string, details map[string]string) (authboss.OAuth2User, error) {
	if d.seam("db.NewFromOAuth2", provider) == faultErr {
		return nil, d.w.injectedErr()
	}
	uid := details["uid"]
	pid := authboss.MakeOAuth2PID(provider, uid)
	if r := d.get(pid); r != nil {
		return d.wrap(r).(authboss.OAuth2User), nil
	}
	// NewFromOAuth2 implementations create confirmed users (the confirm
	// module has no OAuth2 hook by design; stated assumption of C03).
	r := &Row{PID: pid, Email: details["email"], OAuth2UID: uid, OAuth2Provider: provider, Confirmed: true}
	return d.wrap(r).(authboss.OAuth2User), nil
}

func (d *DB) SaveOAuth2(ctx context.Context, user authboss.OAuth2User) error {
	r := rowOf(user)
	if d.seam("db.SaveOAuth2", r.PID) == faultErr {
		return d.w.injectedErr()
	}
	r.PID = authboss.MakeOAuth2PID(r.OAuth2Provider, r.OAuth2UID)
	d.put(r)
	return nil
}
