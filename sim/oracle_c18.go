package sim

import (
	"encoding/json"
	"fmt"
	"sort"
	"strings"
	"testing"
)

// C18: back-end failures never panic, fake success or weaken security state.
//
// Fault enumeration: a scenario is a prefix plus one target request. The
// target is first executed fault-free to list the faultable seam calls it
// makes; then, for every call index and every error kind meaningful at that
// call, the same scenario is re-executed in a fresh world with exactly that
// fault and judged against the fault-free twin.

type c18Scenario struct {
	Name   string
	Needs  func(c *Config)
	Prefix []Step
	Target Step
}

func pwRef(a int) *SecretRef { return &SecretRef{Kind: "password", A: a} }

const goodPw = "G00d-enough!pw"

// c18Scenarios lists every flow. Accounts: 0 plain (2 OTPs), 1 TOTP, 2 SMS,
// 3 unconfirmed (when confirm is loaded).
func c18Scenarios() []c18Scenario {
	mod := func(ms ...string) func(c *Config) { return func(c *Config) { c.ensureModules(ms...) } }
	set := func(ss ...string) func(c *Config) { return func(c *Config) { c.ensureSetups(ss...) } }
	both := func(fs ...func(c *Config)) func(c *Config) {
		return func(c *Config) {
			for _, f := range fs {
				f(c)
			}
		}
	}
	login := func(b, a int) Step { return Step{Kind: "login", B: b, A: a, Sec: pwRef(a)} }
	str := func(kv ...string) map[string]string {
		m := map[string]string{}
		for i := 0; i+1 < len(kv); i += 2 {
			m[kv[i]] = kv[i+1]
		}
		return m
	}
	probe := func(b int, p string) Step { return Step{Kind: "probe", B: b, Str: str("path", p)} }
	totpLogin := []Step{login(0, 1), {Kind: "totp_validate", B: 0, A: 1, Sec: &SecretRef{Kind: "totp", A: 1}}}
	smsLogin := []Step{login(0, 2), {Kind: "sms_validate", B: 0, A: 2, Sec: &SecretRef{Kind: "sms", A: -1, Idx: -1}}}
	return []c18Scenario{
		{"login", mod("auth"), nil, login(0, 0)},
		{"login_lock", mod("auth", "lock"), nil, login(0, 0)},
		{"login_confirm_lock_remember", mod("auth", "lock", "confirm", "remember"), nil, Step{Kind: "login", B: 0, A: 0, Sec: pwRef(0), RM: true}},
		{"login_remember", mod("auth", "remember"), nil, Step{Kind: "login", B: 0, A: 0, Sec: pwRef(0), RM: true}},
		{"login_wrong_lock", mod("auth", "lock"), nil, Step{Kind: "login", B: 0, A: 0, Sec: &SecretRef{Kind: "literal", Lit: "Wr0ng-pass!"}}},
		{"login_locks_account", func(c *Config) { c.ensureModules("auth", "lock"); c.LockAfter = 1 }, nil, Step{Kind: "login", B: 0, A: 0, Sec: &SecretRef{Kind: "literal", Lit: "Wr0ng-pass!"}}},
		{"login_unknown", mod("auth"), nil, Step{Kind: "login", B: 0, A: -1, Sec: &SecretRef{Kind: "literal", Lit: "Wr0ng-pass!"}}},
		// good credentials of an account the gates keep out: no failure may open the gate
		{"login_locked_account", mod("auth", "lock"), []Step{{Kind: "op_lock", B: 0, A: 0}}, login(0, 0)},
		{"otp_login_locked_account", mod("auth", "lock", "otp"), []Step{{Kind: "op_lock", B: 0, A: 0}}, Step{Kind: "otp_login", B: 0, A: 0, Sec: &SecretRef{Kind: "otp", A: 0, Idx: 0}}},
		{"login_unconfirmed_account", mod("auth", "confirm"), nil, login(0, 3)},
		{"login_totp_hijack", both(mod("auth"), set("totp")), nil, login(0, 1)},
		{"login_sms_hijack", both(mod("auth"), set("sms")), nil, login(0, 2)},
		{"login_get", mod("auth"), nil, Step{Kind: "login_get", B: 0}},
		{"otp_login", mod("auth", "otp"), nil, Step{Kind: "otp_login", B: 0, A: 0, Sec: &SecretRef{Kind: "otp", A: 0, Idx: -1}}},
		{"otp_login_lock_remember", mod("auth", "otp", "lock", "remember"), nil, Step{Kind: "otp_login", B: 0, A: 0, Sec: &SecretRef{Kind: "otp", A: 0, Idx: -1}, RM: true}},
		{"otp_login_wrong", mod("auth", "otp", "lock"), nil, Step{Kind: "otp_login", B: 0, A: 0, Sec: &SecretRef{Kind: "literal", Lit: "00000000-00000000-00000000-00000000"}}},
		{"otp_add", mod("auth", "otp"), []Step{login(0, 0)}, Step{Kind: "otp_add", B: 0, A: 0}},
		{"otp_clear", mod("auth", "otp"), []Step{login(0, 0)}, Step{Kind: "otp_clear", B: 0, A: 0}},
		{"register", func(c *Config) { c.ensureModules("register"); c.dropModules("confirm") }, nil,
			Step{Kind: "register", B: 0, A: 9, Fields: str("email", "new@x.co", "username", "newuser", "password", goodPw, "confirm_password", goodPw)}},
		{"register_confirm", mod("register", "confirm"), nil,
			Step{Kind: "register", B: 0, A: 9, Fields: str("email", "new@x.co", "username", "newuser", "password", goodPw, "confirm_password", goodPw)}},
		{"register_duplicate", mod("register"), nil,
			Step{Kind: "register", B: 0, A: 0, Fields: str("email", "u0@x.co", "username", "user0", "password", goodPw, "confirm_password", goodPw)}},
		{"confirm", mod("confirm"), []Step{{Kind: "op_start_confirm", B: 0, A: 3}}, Step{Kind: "confirm", B: 0, A: 3, Sec: &SecretRef{Kind: "confirm", A: 3, Idx: -1}}},
		{"recover_start", mod("recover"), nil, Step{Kind: "recover_start", B: 0, A: 0}},
		{"recover_start_unknown", mod("recover"), nil, Step{Kind: "recover_start", B: 0, A: -1}},
		{"recover_end", func(c *Config) { c.ensureModules("recover", "remember"); c.RecoverLogin = false },
			[]Step{{Kind: "login", B: 1, A: 0, Sec: pwRef(0), RM: true}, {Kind: "recover_start", B: 0, A: 0}},
			Step{Kind: "recover_end", B: 0, A: 0, Sec: &SecretRef{Kind: "recover", A: 0, Idx: -1}, Sec2: &SecretRef{Kind: "literal", Lit: goodPw}}},
		{"recover_end_login", func(c *Config) { c.ensureModules("recover", "lock", "remember"); c.RecoverLogin = true },
			[]Step{{Kind: "recover_start", B: 0, A: 0}},
			Step{Kind: "recover_end", B: 0, A: 0, Sec: &SecretRef{Kind: "recover", A: 0, Idx: -1}, Sec2: &SecretRef{Kind: "literal", Lit: goodPw}}},
		{"recover_end_login_totp", func(c *Config) { c.ensureModules("recover"); c.ensureSetups("totp"); c.RecoverLogin = true },
			[]Step{{Kind: "recover_start", B: 0, A: 1}},
			Step{Kind: "recover_end", B: 0, A: 1, Sec: &SecretRef{Kind: "recover", A: 1, Idx: -1}, Sec2: &SecretRef{Kind: "literal", Lit: goodPw}}},
		{"recover_end_get", mod("recover"), []Step{{Kind: "recover_start", B: 0, A: 0}}, Step{Kind: "recover_end_get", B: 0, A: 0, Sec: &SecretRef{Kind: "recover", A: 0, Idx: -1}}},
		{"totp_validate", both(mod("auth", "lock"), set("totp")), []Step{login(0, 1)}, totpLogin[1]},
		{"totp_validate_onetime", both(mod("auth"), set("totp"), func(c *Config) { c.TOTPOneTime = true }), []Step{login(0, 1)}, totpLogin[1]},
		{"totp_validate_recovery", both(mod("auth"), set("totp")), []Step{login(0, 1)}, Step{Kind: "totp_validate", B: 0, A: 1, Sec: &SecretRef{Kind: "recovery", A: 1, Idx: -1}}},
		{"totp_validate_wrong", both(mod("auth", "lock"), set("totp")), []Step{login(0, 1)}, Step{Kind: "totp_validate", B: 0, A: 1, Sec: &SecretRef{Kind: "literal", Lit: "000000"}}},
		{"sms_validate", both(mod("auth", "lock"), set("sms")), []Step{login(0, 2)}, smsLogin[1]},
		{"sms_validate_recovery", both(mod("auth"), set("sms")), []Step{login(0, 2)}, Step{Kind: "sms_validate", B: 0, A: 2, Sec: &SecretRef{Kind: "recovery", A: 2, Idx: -1}}},
		{"sms_validate_resend", both(mod("auth"), set("sms")), []Step{login(0, 2), {Kind: "advance", Gap: 11e9}}, Step{Kind: "sms_validate", B: 0, A: 2, Sec: &SecretRef{Kind: "empty"}}},
		{"totp_setup", both(mod("auth"), set("totp"), func(c *Config) { c.EmailAuth2FA = false }), []Step{login(0, 0)}, Step{Kind: "totp_setup", B: 0, A: 0}},
		{"totp_confirm", both(mod("auth"), set("totp"), func(c *Config) { c.EmailAuth2FA = false }), []Step{login(0, 0), {Kind: "totp_setup", B: 0, A: 0}},
			Step{Kind: "totp_confirm", B: 0, A: 0, Sec: &SecretRef{Kind: "totp_pending", A: 0}}},
		{"sms_setup", both(mod("auth"), set("sms"), func(c *Config) { c.EmailAuth2FA = false }), []Step{login(0, 0)}, Step{Kind: "sms_setup", B: 0, A: 0, Str: str("number", "+15550000")}},
		{"sms_confirm", both(mod("auth"), set("sms"), func(c *Config) { c.EmailAuth2FA = false }), []Step{login(0, 0), {Kind: "sms_setup", B: 0, A: 0, Str: str("number", "+15550000")}},
			Step{Kind: "sms_confirm", B: 0, A: 0, Sec: &SecretRef{Kind: "sms", A: -1, Idx: -1}}},
		{"totp_remove", both(mod("auth"), set("totp")), totpLogin, Step{Kind: "totp_remove", B: 0, A: 1, Sec: &SecretRef{Kind: "totp", A: 1, Idx: 1}}},
		{"totp_remove_recovery", both(mod("auth"), set("totp")), totpLogin, Step{Kind: "totp_remove", B: 0, A: 1, Sec: &SecretRef{Kind: "recovery", A: 1, Idx: -1}}},
		{"sms_remove", both(mod("auth"), set("sms")), smsLogin, Step{Kind: "sms_remove", B: 0, A: 2, Sec: &SecretRef{Kind: "recovery", A: 2, Idx: -1}}},
		{"recovery_regen", both(mod("auth"), set("totp", "recovery")), totpLogin, Step{Kind: "recovery_regen", B: 0, A: 1}},
		{"everify_start", both(mod("auth"), set("totp"), func(c *Config) { c.EmailAuth2FA = true }), []Step{login(0, 0)}, Step{Kind: "everify_start", B: 0, A: 0, Str: str("kind", "totp")}},
		{"everify_end", both(mod("auth"), set("totp"), func(c *Config) { c.EmailAuth2FA = true }), []Step{login(0, 0), {Kind: "everify_start", B: 0, A: 0, Str: str("kind", "totp")}},
			Step{Kind: "everify_end", B: 0, A: 0, Sec: &SecretRef{Kind: "everify", A: 0, Idx: -1}, Str: str("kind", "totp")}},
		{"oauth2_start", mod("oauth2"), nil, Step{Kind: "oauth2_start", B: 0, RM: true, Str: str("provider", "google")}},
		{"oauth2_callback_new", mod("oauth2", "lock", "remember"), []Step{{Kind: "oauth2_start", B: 0, RM: true, Str: str("provider", "google")}},
			Step{Kind: "oauth2_callback", B: 0, A: 1, Sec: &SecretRef{Kind: "state", A: -1, Idx: -1}, Str: str("provider", "google", "code", "fresh")}},
		{"oauth2_callback_existing", mod("oauth2", "lock"), []Step{{Kind: "oauth2_start", B: 1, Str: str("provider", "google")},
			{Kind: "oauth2_callback", B: 1, A: 1, Sec: &SecretRef{Kind: "state", A: -1, Idx: -1}, Str: str("provider", "google", "code", "fresh")},
			{Kind: "oauth2_start", B: 0, Str: str("provider", "google")}},
			Step{Kind: "oauth2_callback", B: 0, A: 1, Sec: &SecretRef{Kind: "state", A: -1, Idx: -1}, Str: str("provider", "google", "code", "fresh")}},
		{"oauth2_callback_error", mod("oauth2"), []Step{{Kind: "oauth2_start", B: 0, Str: str("provider", "google")}},
			Step{Kind: "oauth2_callback", B: 0, A: 1, Sec: &SecretRef{Kind: "state", A: -1, Idx: -1}, Str: str("provider", "google", "code", "fresh", "error", "access_denied")}},
		{"logout", mod("auth", "logout", "remember"), []Step{{Kind: "login", B: 0, A: 0, Sec: pwRef(0), RM: true}}, Step{Kind: "logout", B: 0}},
		{"remember_cookie", mod("auth", "remember"), []Step{{Kind: "login", B: 0, A: 0, Sec: pwRef(0), RM: true}, {Kind: "drop_session", B: 0}}, probe(0, "/probe/open")},
		{"remember_cookie_login", mod("auth", "remember"), []Step{{Kind: "login", B: 0, A: 0, Sec: pwRef(0), RM: true}, {Kind: "drop_session", B: 0}}, login(0, 0)},
		{"mw_fullauth", mod("auth"), []Step{login(0, 0)}, probe(0, "/probe/mw/1/1/0/x")},
		{"mw_none", mod("auth"), []Step{login(0, 0)}, probe(0, "/probe/mw/0/0/0/x")},
		{"mw_2fa_mounted", both(mod("auth"), set("totp")), totpLogin, probe(0, "/probe/mw/2/2/1/x")},
		{"mw_lock", mod("auth", "lock"), []Step{login(0, 0)}, probe(0, "/probe/lock")},
		{"mw_confirm", mod("auth", "confirm"), []Step{login(0, 0)}, probe(0, "/probe/confirm")},
		{"expire_request", func(c *Config) { c.ensureModules("auth"); c.ensureSetups("expire"); c.dropModules("remember") }, []Step{login(0, 0)}, probe(0, "/probe/open")},
		{"op_lock", mod("lock"), nil, Step{Kind: "op_lock", B: 0, A: 0}},
		{"op_unlock", mod("lock"), []Step{{Kind: "op_lock", B: 0, A: 0}}, Step{Kind: "op_unlock", B: 0, A: 0}},
		{"op_update_password", mod("auth", "remember"), []Step{{Kind: "login", B: 0, A: 0, Sec: pwRef(0), RM: true}}, Step{Kind: "op_update_password", B: 0, A: 0, Sec: &SecretRef{Kind: "literal", Lit: goodPw}}},
		{"op_start_confirm", mod("confirm"), nil, Step{Kind: "op_start_confirm", B: 0, A: 0}},
	}
}

type c18Extra struct {
	Scenario string `json:"scenario"`
}

// c18Hist collects every value a list-like stored field ever held.
type c18Hist map[string]map[string]bool

func (h c18Hist) add(pid, field string, vals []string) {
	k := pid + "\x00" + field
	if h[k] == nil {
		h[k] = map[string]bool{}
	}
	for _, v := range vals {
		if v != "" {
			h[k][v] = true
		}
	}
}

func (h c18Hist) seen(pid, field, v string) bool { return h[pid+"\x00"+field][v] }

func (h c18Hist) addRows(rows map[string]*Row, rm []string) {
	for pid, r := range rows {
		h.add(pid, "otps", splitCSV(r.OTPs))
		h.add(pid, "recovery", splitCSV(r.RecoveryCodes))
		h.add(pid, "confirm_selector", []string{r.ConfirmSelector})
		h.add(pid, "recover_selector", []string{r.RecoverSelector})
	}
	h.add("", "rm", rm)
}

type c18Side struct {
	obs  *Obs
	hist c18Hist
	kb   *KB
	w    *World
}

// c18RunSide executes prefix + target in a fresh world.
func c18RunSide(t *testing.T, plan Plan, dg *digester, label string) (side c18Side) {
	var hp interface{}
	func() {
		defer func() {
			if r := recover(); r != nil {
				hp = r
			}
		}()
		bubble(t, func(t *testing.T) {
			w := NewWorld(t, plan.Cfg, plan.Seed, false)
			defer w.Close()
			defer func() { w.sched.afterRequest(w) }()
			hist := c18Hist{}
			hist.addRows(w.rowsSnapshot(), w.DB.rmSnapshot())
			for i := range plan.Steps {
				st := plan.Steps[i]
				o := w.Exec(i, &st)
				dg.line("%s", label)
				dg.obs(w, o)
				if i == len(plan.Steps)-1 {
					side = c18Side{obs: o, hist: hist, kb: w.KB, w: w}
					return
				}
				hist.addRows(o.RowsAfter, o.RMAfter)
				w.kbUpdate(o)
			}
		})
	}()
	if hp != nil {
		panic(fmt.Sprintf("harness panic in C18 run seed=%d: %v", plan.Seed, hp))
	}
	return side
}

func evKeys(o *Obs) string {
	var ks []string
	for _, e := range o.SessEvents {
		ks = append(ks, fmt.Sprintf("s%d:%s", e.Kind, e.Key))
	}
	for _, e := range o.CookEvents {
		ks = append(ks, fmt.Sprintf("c%d:%s", e.Kind, e.Key))
	}
	return strings.Join(ks, ",")
}

// rowDelta lists the fields of each row that differ between before and after.
func rowDelta(before, after map[string]*Row) map[string]bool {
	d := map[string]bool{}
	for pid, a := range after {
		b := before[pid]
		if b == nil {
			d[pid+":created"] = true
			continue
		}
		bf, af := b.fields(), a.fields()
		for k, v := range af {
			if bf[k] != v {
				d[pid+":"+k] = true
			}
		}
		if b.Confirmed != a.Confirmed {
			d[pid+":confirmed"] = true
		}
		if b.AttemptCount != a.AttemptCount {
			d[pid+":attempts"] = true
		}
		if !b.Locked.Equal(a.Locked) {
			d[pid+":locked"] = true
		}
	}
	for pid := range before {
		if after[pid] == nil {
			d[pid+":deleted"] = true
		}
	}
	return d
}

func setDiff(a, b []string) (onlyA []string) {
	m := map[string]bool{}
	for _, x := range b {
		m[x] = true
	}
	for _, x := range a {
		if !m[x] {
			onlyA = append(onlyA, x)
		}
	}
	return
}

// c18Judge applies R1-R4 to a faulted execution given its fault-free twin.
func c18Judge(w *World, sc string, base, f c18Side) []Violation {
	var out []Violation
	o, b := f.obs, base.obs
	if o.FaultFired == "" {
		return nil
	}
	site := o.FaultFired
	kind := o.Step.Fault.Kind
	if !kindMeaningful(site, map[string]faultKind{"err": faultErr, "notfound": faultNotFound, "found": faultFound}[kind]) {
		kind = "err"
	}
	// R1
	if o.Panic != "" {
		out = append(out, viol("C18", "panic", sc, o, fmt.Sprintf("fault %s at %s: the handler chain panicked: %s", kind, site, clip(o.Panic, 200)), "fault", site+":"+kind))
		return out
	}
	// R1': a route guard that could not load its user answers with an error;
	// the wrapped handler is not served as if nothing had happened
	if strings.HasPrefix(sc, "mw_") && strings.HasPrefix(site, "db.") && kind == "err" && o.Step.Kind == "probe" {
		if o.Probe != nil && o.Probe.Ran {
			out = append(out, viol("C18", "guard_served_handler_on_storage_error", sc, o,
				fmt.Sprintf("fault %s at %s: the guarded handler of %s was served (status %d) although the guard's storage call failed", kind, site, o.Target, o.Status), "fault", site+":"+kind))
		} else {
			w.Stats.Reach["c18_guard_refused_on_storage_error"]++
		}
	}
	// R2: a change the fault-free twin made is missing -> the response must
	// not be the twin's success response, and must be an error outcome
	bd, fd := rowDelta(b.RowsBefore, b.RowsAfter), rowDelta(o.RowsBefore, o.RowsAfter)
	var lacking []string
	for k := range bd {
		if !fd[k] {
			lacking = append(lacking, k)
		}
	}
	bAdded, fAdded := setDiff(b.RMAfter, b.RMBefore), setDiff(o.RMAfter, o.RMBefore)
	bGone, fGone := setDiff(b.RMBefore, b.RMAfter), setDiff(o.RMBefore, o.RMAfter)
	if len(bAdded) > len(fAdded) {
		lacking = append(lacking, "rm:added")
	}
	if len(bGone) > len(fGone) {
		lacking = append(lacking, "rm:removed")
	}
	sort.Strings(lacking)
	errorish := o.errorOutcome() || o.RespStatus == "failure" || o.Status >= 400 || o.OpErr != "" ||
		(o.SessAfter["flash_error"] != "" && o.SessAfter["flash_error"] != o.SessBefore["flash_error"])
	if len(lacking) > 0 {
		// documented: an unknown user in a recovery request is answered like a known one
		exempt := sc == "recover_start" && site == "db.Load" && kind == "notfound"
		// documented: the remember middleware logs a storage failure and serves
		// the request unauthenticated; what the handler behind it then does
		// is not a report about the cookie
		mwOnly := (site == "db.UseRememberToken" || site == "db.AddRememberToken") && o.presented("cookie") != nil && o.uidBefore() == "" && o.Step.Kind != "logout"
		if mwOnly {
			only := true
			for _, l := range lacking {
				if !strings.HasPrefix(l, "rm:") {
					only = false
				}
			}
			_, cookieOut := hasPut(o.CookEvents, "rm")
			if only && cookieOut && len(fAdded) == 0 {
				// a cookie was handed out whose token was never stored
				only = false
				lacking = []string{"rm:added(cookie issued)"}
				errorish = false
			}
			if only && !(o.Step.RM && site == "db.AddRememberToken" && len(fAdded) == 0 && o.CookAfter["rm"] != "" && o.CookAfter["rm"] != o.CookBefore["rm"]) {
				w.Stats.Reach["c18_remember_middleware_swallowed"]++
				lacking = nil
			}
		}
		same := o.Status == b.Status && o.Location == b.Location && o.RespStatus == b.RespStatus && evKeys(o) == evKeys(b) && o.OpErr == b.OpErr &&
			(o.Body == b.Body || o.RespStatus == "success" && b.RespStatus == "success")
		switch {
		case len(lacking) == 0:
		case exempt:
			w.Stats.Reach["c18_exempt_recover_enumeration"]++
		case same && !errorish:
			out = append(out, viol("C18", "success_reported_for_unsaved_change", sc, o,
				fmt.Sprintf("fault %s at %s: the response equals the fault-free success (status %d loc %q) although %v was not saved", kind, site, o.Status, o.Location, lacking), "fault", site+":"+kind))
		case !errorish && o.IsHTTP && !strings.HasPrefix(o.Target, "/probe/"):
			out = append(out, viol("C18", "no_error_outcome", sc, o,
				fmt.Sprintf("fault %s at %s: %v was not saved yet the request did not end with an error outcome (status %d loc %q body %s)", kind, site, lacking, o.Status, o.Location, clip(o.Body, 120)), "fault", site+":"+kind))
		default:
			w.Stats.Reach["c18_error_outcome"]++
		}
	}
	// R3: no session on the strength of a one-time credential whose consumption was not saved
	if uid, ok := w.loginPut(o); ok && o.IsHTTP {
		row := o.RowsAfter[uid]
		bad := ""
		if p := o.presented("otp"); p != nil && o.Step.Kind == "otp_login" && row != nil && otpMatches(row.OTPs, p.Value) {
			bad = "one-time password"
		}
		if p := o.presented("recovery"); p != nil && p.Value != "" && row != nil && recoveryMatches(row.RecoveryCodes, p.Value) {
			bad = "recovery code"
		}
		if p := o.presented("token"); p != nil && o.Step.Kind == "recover_end" && row != nil && o.RowsBefore[uid] != nil && row.RecoverSelector != "" && row.RecoverSelector == o.RowsBefore[uid].RecoverSelector {
			bad = "recovery token"
		}
		if p := o.presented("code"); p != nil && o.Step.Kind == "totp_validate" && w.Cfg.TOTPOneTime && row != nil && row.TOTPSecretKey != "" && row.TOTPLastCode != p.Value {
			bad = "TOTP code (replay protection on, last code not recorded)"
		}
		if bad != "" {
			out = append(out, viol("C18", "session_on_unconsumed_credential", sc, o,
				fmt.Sprintf("fault %s at %s: a session for %s was issued although the %s it presented is still stored as usable", kind, site, uid, bad), "fault", site+":"+kind))
		}
	}
	if raw, ok := hasPut(o.SessEvents, "uid"); ok && raw != "" && o.uidBefore() == "" {
		if ck := o.presented("cookie"); ck != nil && ck.Known != nil && ck.Known.Kind == "rm" {
			// the presented remember token must be gone from the table
			if len(fGone) == 0 && len(o.RMBefore) > 0 && o.SessAfter["halfauth"] == "true" {
				out = append(out, viol("C18", "session_on_unconsumed_credential", sc, o,
					fmt.Sprintf("fault %s at %s: the remember cookie logged %s in but its token was not consumed", kind, site, raw), "fault", site+":"+kind))
			}
		}
	}
	// R5: a failure opens nothing: a request the fault-free twin refused a
	// session must not come away with one because a back-end call failed
	if kind == "err" && o.IsHTTP && b.IsHTTP {
		fu, fok := f.w.loginPut(o)
		bu, bok := base.w.loginPut(b)
		if fok && fu != "" && !(bok && bu != "") && o.uidBefore() == "" {
			out = append(out, viol("C18", "session_only_under_fault", sc, o,
				fmt.Sprintf("fault %s at %s: the request ended with a session for %s; without the fault it is refused (status %d loc %q)", kind, site, fu, b.Status, b.Location), "fault", site+":"+kind))
		} else if !(bok && bu != "") {
			w.Stats.Reach["c18_refused_with_and_without_fault"]++
		}
	}
	// R4: nothing spent comes back
	for pid, a := range o.RowsAfter {
		bf := o.RowsBefore[pid]
		if bf == nil {
			continue
		}
		chk := func(field string, before, after []string) {
			for _, v := range setDiff(after, before) {
				if f.hist.seen(pid, field, v) {
					out = append(out, viol("C18", "spent_credential_revived", sc, o,
						fmt.Sprintf("fault %s at %s: stored %s of %s contains a value again that had been removed earlier", kind, site, field, pid), "fault", site+":"+kind, "field", field))
				}
			}
		}
		chk("otps", splitCSV(bf.OTPs), splitCSV(a.OTPs))
		chk("recovery", splitCSV(bf.RecoveryCodes), splitCSV(a.RecoveryCodes))
		chk("confirm_selector", []string{bf.ConfirmSelector}, []string{a.ConfirmSelector})
		chk("recover_selector", []string{bf.RecoverSelector}, []string{a.RecoverSelector})
	}
	// R2': whatever a failed request did save is sound - a password field that
	// changed holds a hash of the password the request submitted, nothing else
	// (an empty or half-made hash would be a change nobody asked for)
	newPw := ""
	switch o.Step.Kind {
	case "recover_end":
		newPw = f.w.lastSec2
	case "op_update_password":
		newPw = f.w.lastSec
	case "register":
		newPw = o.Step.Fields["password"]
	}
	if newPw != "" {
		for _, pid := range sortedRowKeys(o.RowsAfter) {
			a, bf := o.RowsAfter[pid], o.RowsBefore[pid]
			if (bf == nil || bf.Password != a.Password) && !pwMatches(a.Password, newPw) {
				out = append(out, viol("C18", "unsound_password_saved", sc, o,
					fmt.Sprintf("fault %s at %s: the password field of %s changed to a value (%d bytes) that does not verify the submitted password", kind, site, pid, len(a.Password)), "fault", site+":"+kind))
			}
		}
	}
	for _, v := range setDiff(o.RMAfter, o.RMBefore) {
		if f.hist.seen("", "rm", v) {
			out = append(out, viol("C18", "spent_credential_revived", sc, o, fmt.Sprintf("fault %s at %s: a consumed remember token is back in the table", kind, site), "fault", site+":"+kind, "field", "rm"))
		}
	}
	return out
}

func c18Config(r *Rng, sc *c18Scenario) Config {
	c := baseConfig(r)
	c.dropSetups("expire")
	c.NAccounts = 4
	c.Accounts = []AcctSpec{{Confirmed: true, OTPs: 2}, {Confirmed: true, TOTP: true}, {Confirmed: true, SMS: true}, {Confirmed: false}}
	c.EmailAuth2FA = false
	c.LockAfter = 3
	c.dropModules("confirm", "lock")
	if c.NBrowsers < 2 {
		c.NBrowsers = 2
	}
	sc.Needs(&c)
	for i, a := range c.Accounts {
		if a.TOTP {
			c.ensureSetups("totp")
		}
		if a.SMS {
			c.ensureSetups("sms")
		}
		_ = i
	}
	if c.JSON {
		c.MailRouteMethod = "POST"
	}
	return c
}

// c18Exec replays one faulted scenario against its fault-free twin.
func c18Exec(t *testing.T, plan Plan, keepTrace bool) *RunResult {
	res := &RunResult{Plan: plan, Stats: newStats()}
	dg := newDigester(keepTrace)
	var ex c18Extra
	json.Unmarshal(plan.Extra, &ex)
	if len(plan.Steps) == 0 {
		res.Digest = dg.sum()
		return res
	}
	basePlan := plan
	basePlan.Steps = append([]Step(nil), plan.Steps...)
	basePlan.Steps[len(basePlan.Steps)-1].Fault = nil
	base := c18RunSide(t, basePlan, dg, "base")
	f := c18RunSide(t, plan, dg, "fault")
	if base.obs != nil && f.obs != nil {
		res.Stats.merge(f.w.Stats)
		for _, v := range c18Judge(f.w, ex.Scenario, base, f) {
			v.Step = len(plan.Steps) - 1
			res.Violations = append(res.Violations, v)
			dg.line("VIOLATION %s :: %s", v.Sig(), v.Detail)
		}
	}
	res.Digest = dg.sum()
	res.Trace = dg.trace
	return res
}

// c18Run enumerates every (call index x error kind) of one scenario.
func c18Run(t *testing.T, seed uint64, tier string) *RunResult {
	r := NewRng(seed)
	scs := c18Scenarios()
	sc := scs[int(seed%uint64(len(scs)))]
	if curRunIndex >= 0 {
		// a batch walks the scenario table in order: every scenario is
		// enumerated, whatever the seed
		sc = scs[curRunIndex%len(scs)]
	}
	cfg := c18Config(r.Fork(1), &sc)
	ex, _ := json.Marshal(c18Extra{Scenario: sc.Name})
	plan := Plan{Prop: "C18", Seed: seed, Tier: tier, Mode: "c18", Cfg: cfg, Extra: ex}
	plan.Steps = append(append([]Step(nil), sc.Prefix...), sc.Target)
	res := &RunResult{Plan: plan, Stats: newStats()}
	dg := newDigester(false)
	seenSig := map[string]bool{}
	var allCalls []string
	// the statement asks for both the silent default error handler and one
	// that writes a 500: every scenario is enumerated under both
	for _, eh := range []bool{false, true} {
		plan.Cfg.Err500 = eh
		c18Enumerate(t, plan, sc.Name, res, dg, seenSig, &allCalls)
	}
	res.Nontrivial = len(allCalls) > 0
	res.EndState = fmt.Sprintf("%s json=%v nogor=%v calls=%s", sc.Name, cfg.JSON, cfg.MailNoGoroutine, strings.Join(allCalls, ","))
	res.Digest = dg.sum()
	return res
}

// c18Enumerate runs the fault-free twin and every single-fault variant of one
// scenario under one configuration.
func c18Enumerate(t *testing.T, plan Plan, scName string, res *RunResult, dg *digester, seenSig map[string]bool, allCalls *[]string) {
	base := c18RunSide(t, plan, dg, "base")
	if base.obs == nil {
		return
	}
	var calls []string
	for _, c := range base.obs.Calls {
		if faultable(c) {
			calls = append(calls, c)
		}
	}
	*allCalls = append(*allCalls, calls...)
	res.Stats.Reach["c18_scenario_"+scName]++
	res.Stats.Reach["c18_fault_points"] += len(calls)
	res.Stats.Reach[fmt.Sprintf("c18_err500_%v", plan.Cfg.Err500)]++
	for k, site := range calls {
		kinds := []string{"err"}
		if kindMeaningful(site, faultNotFound) {
			kinds = append(kinds, "notfound")
		}
		if kindMeaningful(site, faultFound) {
			kinds = append(kinds, "found")
		}
		for _, kind := range kinds {
			fp := plan
			fp.Steps = append([]Step(nil), plan.Steps...)
			fp.Steps[len(fp.Steps)-1].Fault = &FaultDirective{Index: k, Kind: kind}
			f := c18RunSide(t, fp, dg, fmt.Sprintf("fault %d %s", k, kind))
			if f.obs == nil {
				continue
			}
			res.Stats.Reach["c18_faulted_executions"]++
			res.Stats.Faults[f.obs.FaultFired+":"+kind]++
			res.Stats.Requests += f.w.Stats.Requests
			vs := c18Judge(f.w, scName, base, f)
			for key, n := range f.w.Stats.Reach {
				if strings.HasPrefix(key, "c18_") {
					res.Stats.Reach[key] += n
				}
			}
			for _, v := range vs {
				if seenSig[v.Sig()] {
					continue
				}
				seenSig[v.Sig()] = true
				v.Step = len(fp.Steps) - 1
				// the replayable plan is the faulted one
				pc := fp
				v.Plan = &pc
				res.Violations = append(res.Violations, v)
			}
		}
	}
}

func init() {
	var req []string
	for _, s := range c18Scenarios() {
		req = append(req, "c18_scenario_"+s.Name)
	}
	req = append(req, "c18_error_outcome", "c18_faulted_executions", "c18_guard_refused_on_storage_error")
	register(&Profile{ID: "C18", Run: c18Run, Replay: c18Exec, RequiredReach: req})
}
