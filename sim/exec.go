package sim

import (
	"context"
	"encoding/json"
	"fmt"
	"io"
	"net/http"
	"net/http/httptest"
	"net/url"
	"regexp"
	"sort"
	"strings"
	"time"

	"github.com/volatiletech/authboss/v3"
)

func sortStrings(s []string) { sort.Strings(s) }

var regexpCode = regexp.MustCompile(`(?:^|&)code=([^&]*)`)

// Obs is everything observable about one executed step.
type Obs struct {
	N    int
	Step *Step
	Now  time.Time // simulated time at which the step ran

	IsHTTP  bool
	Method  string
	Target  string
	ReqBody string

	Status     int
	Header     http.Header
	Body       string
	JSON       map[string]interface{}
	Location   string // Location header, or JSON "location"
	RespStatus string // JSON "status"

	SessBefore, SessAfter map[string]string
	CookBefore, CookAfter map[string]string
	RowsBefore, RowsAfter map[string]*Row
	RMBefore, RMAfter     []string

	Mails []MailRec
	SMS   []SMSRec
	Logs  []string

	SessEvents, CookEvents []authboss.ClientStateEvent
	Writes                 []WriteRec

	Probe       *ProbeRec
	Panic       string
	HandlerErrs []string
	Calls       []string
	FaultFired  string
	OpErr       string // error of an operator action

	Presented []Presented
	raters    []func() Presented
	Replay    bool // the very same request as this browser's previous one, sent again
	// CodeUnused: the OAuth2 authorisation code carried by the request had not
	// been redeemed at the provider when the request was sent
	CodeUnused bool
	// target account as resolved (-1 unknown)
	Acct int
}

// sessPut returns the value the response put under key (last put wins, a later
// delete cancels it).
func (o *Obs) sessPut(key string) (string, bool) {
	v, ok := "", false
	for _, ev := range o.SessEvents {
		switch ev.Kind {
		case authboss.ClientStateEventPut:
			if ev.Key == key {
				v, ok = ev.Value, true
			}
		case authboss.ClientStateEventDel:
			if ev.Key == key {
				v, ok = "", false
			}
		case authboss.ClientStateEventDelAll:
			v, ok = "", false
		}
	}
	return v, ok
}

// loginPut returns the uid the response established through a login flow. A
// uid that only the remember-me middleware produced (the request also carried a
// usable cookie of that account, no session user, and the half-auth mark is
// still in place afterwards - every completed login flow removes it) is not a
// login of the handler and is ignored.
func (w *World) loginPut(o *Obs) (string, bool) {
	uid, ok := o.sessPut("uid")
	if !ok || uid == "" {
		return "", false
	}
	if ck := o.presented("cookie"); ck != nil && o.uidBefore() == "" && w.rememberActive() &&
		ck.Known != nil && usable(ck.Status) && ck.Known.Acct >= 0 && ck.Known.Acct == w.acctByPID(uid) && o.SessAfter["halfauth"] == "true" {
		return "", false
	}
	return uid, true
}

func (o *Obs) cookPut(key string) (string, bool) {
	v, ok := "", false
	for _, ev := range o.CookEvents {
		switch ev.Kind {
		case authboss.ClientStateEventPut:
			if ev.Key == key {
				v, ok = ev.Value, true
			}
		case authboss.ClientStateEventDel:
			if ev.Key == key {
				v, ok = "", false
			}
		}
	}
	return v, ok
}

func (o *Obs) uidBefore() string { return o.SessBefore[authboss.SessionKey] }
func (o *Obs) uidAfter() string  { return o.SessAfter[authboss.SessionKey] }

func (o *Obs) presented(role string) *Presented {
	for i := range o.Presented {
		if o.Presented[i].Role == role {
			return &o.Presented[i]
		}
	}
	return nil
}

// rowChanged reports whether the stored row of pid differs before/after.
func (o *Obs) rowChanged(pid string) bool {
	a, b := o.RowsBefore[pid], o.RowsAfter[pid]
	if a == nil || b == nil {
		return a != b
	}
	return a.canon() != b.canon()
}

func (o *Obs) rowsChanged() bool {
	if len(o.RowsBefore) != len(o.RowsAfter) {
		return true
	}
	for pid := range o.RowsBefore {
		if o.rowChanged(pid) {
			return true
		}
	}
	return false
}

func (o *Obs) dbChanged() bool {
	if len(o.RowsBefore) != len(o.RowsAfter) {
		return true
	}
	for pid := range o.RowsBefore {
		if o.rowChanged(pid) {
			return true
		}
	}
	return strings.Join(o.RMBefore, ",") != strings.Join(o.RMAfter, ",")
}

// errorOutcome: the request ended as an error (handler error, 5xx, panic).
func (o *Obs) errorOutcome() bool {
	return len(o.HandlerErrs) > 0 || o.Status >= 500 || o.Panic != ""
}

func (w *World) rowsSnapshot() map[string]*Row {
	m := make(map[string]*Row, len(w.DB.rows))
	for k, v := range w.DB.rows {
		m[k] = v.clone()
	}
	return m
}

type lastReq struct {
	method, path, rawq, body, ctype string
	step                            Step
	raters                          []func() Presented
}

func (w *World) mountPath(p string) string { return w.Cfg.Mount + p }

func (w *World) pidField() string {
	if w.Cfg.UseUsername {
		return "username"
	}
	return "email"
}

func (w *World) pidOf(a int, st *Step) string {
	if st != nil && st.str("pid") != "" {
		return st.str("pid")
	}
	if a >= 0 && a < len(w.Accts) {
		return w.Accts[a].PID
	}
	return fmt.Sprintf("ghost%d@nowhere.io", -a)
}

// encodeBody renders fields as a form or JSON body.
func (w *World) encodeBody(fields map[string]string) (string, string) {
	if w.Cfg.JSON {
		if fields["rm"] == "bool:true" {
			// a client that sends the remember flag as a JSON boolean
			m := map[string]interface{}{}
			for k, v := range fields {
				m[k] = v
			}
			m["rm"] = true
			b, _ := json.Marshal(m)
			return string(b), "application/json"
		}
		b, _ := json.Marshal(fields)
		return string(b), "application/json"
	}
	v := url.Values{}
	for k, x := range fields {
		v.Set(k, x)
	}
	return v.Encode(), "application/x-www-form-urlencoded"
}

func (w *World) mailMethod() string { return w.Cfg.MailRouteMethod }

// rate looks a concrete value up in the KB.
func (w *World) rate(role, kbKind, value string) Presented {
	p := Presented{Role: role, Value: value}
	var s *Secret
	switch kbKind {
	case "confirm", "recover":
		s = w.KB.findToken(kbKind, value)
	case "":
	default:
		s = w.KB.find(kbKind, value)
	}
	if s != nil {
		p.Known = s
		p.Status = s.Status
	}
	return p
}

// Exec executes one step and returns the observation.
func (w *World) Exec(n int, st *Step) *Obs {
	if st.Gap > 0 {
		time.Sleep(st.Gap)
		w.Stats.SimTime += st.Gap
	}
	o := &Obs{N: n, Step: st, Now: time.Now(), Acct: st.A}
	if st.B < 0 || st.B >= len(w.Browsers) {
		st.B = 0
	}
	br := w.Browsers[st.B]
	if st.A >= len(w.Accts) {
		o.Acct = -1
	}
	mp := w.mountPath
	q := url.Values{}
	if v := st.str("redir"); v != "" && st.str("redir_in") != "body" {
		q.Set("redir", v)
	}
	fields := map[string]string{}
	for k, v := range st.Fields {
		fields[k] = v
	}
	if v := st.str("redir"); v != "" && st.str("redir_in") == "body" {
		fields["redir"] = v
	}
	method, path := "POST", ""
	hasBody := true

	secVal := w.resolve(st.Sec)
	sec2Val := w.resolve(st.Sec2)
	w.lastSec, w.lastSec2 = secVal, sec2Val
	if st.Sec != nil && (st.Sec.Kind == "totp" || st.Sec.Kind == "totp_pending") && st.Sec.Mut == "" && (st.Kind == "totp_validate" || st.Kind == "totp_confirm") {
		if w.lastTOTP == nil {
			w.lastTOTP = map[int]string{}
		}
		w.lastTOTP[st.A] = secVal
	}

	switch st.Kind {
	case "advance":
		return w.finishNonHTTP(o)
	case "op_lock", "op_unlock", "op_update_password", "op_start_confirm", "op_delete":
		return w.execOperator(o, st, secVal)
	case "copy_cookie":
		from := 0
		fmt.Sscanf(st.str("from"), "%d", &from)
		o.CookBefore = copyMap(br.Cookies)
		if from >= 0 && from < len(w.Browsers) {
			if v, ok := w.Browsers[from].Cookies["rm"]; ok {
				br.Cookies["rm"] = v
			}
		}
		return w.finishNonHTTP(o)
	case "stale_cookie":
		// restore an earlier value of this (or another) browser's rm cookie
		from := st.B
		fmt.Sscanf(st.str("from"), "%d", &from)
		if from >= 0 && from < len(w.Browsers) {
			h := w.Browsers[from].CookieHistory
			if len(h) > 0 {
				idx := 0
				fmt.Sscanf(st.str("idx"), "%d", &idx)
				if idx < 0 {
					idx += len(h)
				}
				if idx < 0 || idx >= len(h) {
					idx = 0
				}
				br.Cookies["rm"] = h[idx]
			}
		}
		return w.finishNonHTTP(o)
	case "set_cookie":
		br.Cookies["rm"] = secVal
		return w.finishNonHTTP(o)
	case "second_site":
		// somebody uses the other site hosted by this process
		w.secondSiteRequest(st.str("what"), o.N)
		return w.finishNonHTTP(o)
	case "restart":
		// the server process restarts: whatever it kept in memory is gone, the
		// database and the browsers' jars survive
		w.restart()
		w.Stats.Reach["restart"]++
		return w.finishNonHTTP(o)
	case "drop_session":
		// the browser loses its session (e.g. session cookie expired) but keeps cookies
		br.Session = map[string]string{}
		return w.finishNonHTTP(o)
	case "app_session_put":
		br.Session[st.str("key")] = st.str("val")
		return w.finishNonHTTP(o)
	case "mangle_stamp":
		// the session store hands the activity stamp back damaged
		if v, ok := br.Session["last_action"]; ok {
			switch st.str("how") {
			case "truncate":
				if len(v) > 10 {
					v = v[:10]
				}
			case "empty":
				v = ""
			case "unix":
				v = "1700000000"
			default:
				v = "not-a-date"
			}
			br.Session["last_action"] = v
			w.Stats.Reach["stamp_mangled"]++
		}
		return w.finishNonHTTP(o)

	case "login":
		path = mp("/login")
		fields[w.pidField()] = w.pidOf(st.A, st)
		fields["password"] = secVal
		{
			pidv := fields[w.pidField()]
			o.raters = append(o.raters, func() Presented { return w.ratePassword(pidv, secVal) })
		}
		if st.RM {
			fields["rm"] = "true"
			if st.str("rm_bool") != "" {
				fields["rm"] = "bool:true"
			}
		}
	case "login_get":
		method, path, hasBody = "GET", mp("/login"), false
	case "otp_login":
		path = mp("/otp/login")
		fields[w.pidField()] = w.pidOf(st.A, st)
		fields["password"] = secVal
		{
			v := secVal
			o.raters = append(o.raters, func() Presented { return w.rate("otp", "otp", v) })
		}
		if st.RM {
			fields["rm"] = "true"
		}
	case "otp_add":
		path = mp("/otp/add")
	case "otp_clear":
		path = mp("/otp/clear")
	case "logout":
		method, path = st.str("method"), mp("/logout")
		if method == "" {
			method = w.Cfg.LogoutMethod
		}
		hasBody = method == "POST"
	case "register":
		path = mp("/register")
	case "recover_start":
		path = mp("/recover")
		fields[w.pidField()] = w.pidOf(st.A, st)
	case "recover_end_get":
		method, path, hasBody = "GET", mp("/recover/end"), false
		q.Set("token", secVal)
		{
			v := secVal
			o.raters = append(o.raters, func() Presented { return w.rate("token", "recover", v) })
		}
	case "recover_end":
		path = mp("/recover/end")
		fields["token"] = secVal
		fields["password"] = sec2Val
		if _, ok := fields["confirm_password"]; !ok {
			fields["confirm_password"] = sec2Val
		}
		{
			v := secVal
			o.raters = append(o.raters, func() Presented { return w.rate("token", "recover", v) })
		}
	case "confirm":
		method, path = w.mailMethod(), mp("/confirm")
		if m := st.str("method"); m != "" {
			method = m
		}
		if method == "GET" {
			q.Set("cnf", secVal)
			hasBody = false
		} else {
			fields["cnf"] = secVal
		}
		{
			v := secVal
			o.raters = append(o.raters, func() Presented { return w.rate("token", "confirm", v) })
		}
	case "totp_setup":
		path = mp("/2fa/totp/setup")
	case "totp_setup_get":
		method, path, hasBody = "GET", mp("/2fa/totp/setup"), false
	case "totp_confirm", "totp_remove", "totp_validate":
		path = mp("/2fa/totp/" + strings.TrimPrefix(st.Kind, "totp_"))
		w.codeFields(o, st, fields, secVal)
	case "sms_setup":
		path = mp("/2fa/sms/setup")
		fields["phone_number"] = st.str("number")
	case "sms_setup_get":
		method, path, hasBody = "GET", mp("/2fa/sms/setup"), false
	case "sms_confirm", "sms_remove", "sms_validate":
		path = mp("/2fa/sms/" + strings.TrimPrefix(st.Kind, "sms_"))
		w.codeFields(o, st, fields, secVal)
	case "recovery_regen":
		path = mp("/2fa/recovery/regen")
	case "everify_start":
		path = mp("/2fa/" + st.str("kind") + "/email/verify")
	case "everify_end":
		method, path = w.mailMethod(), mp("/2fa/"+st.str("kind")+"/email/verify/end")
		if method == "GET" {
			q.Set("token", secVal)
			hasBody = false
		} else {
			fields["token"] = secVal
		}
		{
			v := secVal
			o.raters = append(o.raters, func() Presented { return w.rate("token", "everify", v) })
		}
	case "oauth2_start":
		method, path, hasBody = "GET", mp("/oauth2/"+st.str("provider")), false
		if st.RM {
			q.Set("rm", "true")
		}
		if v := st.str("redir2"); v != "" {
			q.Add("redir", v) // the parameter given twice
		}
		if v := st.str("extra"); v != "" {
			q.Set("extra", v)
		}
	case "oauth2_callback":
		method, path, hasBody = "GET", mp("/oauth2/callback/"+st.str("provider")), false
		q.Del("redir")
		state := secVal
		{
			v := state
			o.raters = append(o.raters, func() Presented { return w.rate("state", "state", v) })
		}
		if st.str("nostate") == "" {
			q.Set("state", state)
		}
		if e := st.str("error"); e != "" {
			q.Set("error", e)
		}
		switch st.str("code") {
		case "fresh":
			u := w.idpUser(st)
			if cp := st.str("code_provider"); cp != "" && cp != u.Provider {
				// the user consented at another provider than the one whose
				// callback route receives the code: for that route's provider
				// this is not a code of its own
				u = IdPUser{Provider: cp, UID: u.UID + "-at-" + cp, Email: u.UID + "." + cp + "@idp.example"}
				q.Set("code", w.IdP.Grant(u))
				o.CodeUnused = false
				w.Stats.Reach["oauth2_code_of_other_provider"]++
				break
			}
			q.Set("code", w.IdP.Grant(u))
			o.CodeUnused = true
		case "replay":
			// newest already used code
			best := ""
			for c, g := range w.IdP.codes {
				if g.used && c > best {
					best = c
				}
			}
			q.Set("code", best)
			o.CodeUnused = false
		case "none":
		default:
			q.Set("code", st.str("code"))
		}
	case "probe":
		method, path, hasBody = "GET", st.str("path"), false
		if m := st.str("method"); m != "" {
			method = m
		}
		if rq := st.str("rawquery"); rq != "" {
			return w.doRequest(o, st, method, path, rq, "", "")
		}
	case "replay":
		lr := w.Browsers[st.B].last
		if lr == nil {
			return w.finishNonHTTP(o)
		}
		orig := lr.step
		if orig.Str != nil {
			orig.Str = copyMap(orig.Str)
			if orig.Str["code"] == "fresh" {
				orig.Str["code"] = "replay"
			}
		}
		orig.Gap = st.Gap
		o.Step = &orig
		o.Replay = true
		if m := regexpCode.FindStringSubmatch(lr.rawq); m != nil {
			if g := w.IdP.codes[unesc(m[1])]; g != nil {
				o.CodeUnused = !g.used
			}
		}
		o.Acct = orig.A
		o.raters = lr.raters
		return w.doRequest(o, st, lr.method, lr.path, lr.rawq, lr.body, lr.ctype)
	case "raw":
		return w.doRequest(o, st, st.str("method"), st.str("path"), st.str("rawquery"), st.str("body"), st.str("ctype"))
	default:
		return w.finishNonHTTP(o)
	}

	body, ctype := "", ""
	if hasBody {
		body, ctype = w.encodeBody(fields)
	} else if w.Cfg.JSON {
		ctype = "application/json"
	}
	if method == "" {
		method = "GET"
	}
	return w.doRequest(o, st, method, path, q.Encode(), body, ctype)
}

func (w *World) idpUser(st *Step) IdPUser {
	uid := st.str("uid")
	if uid == "" {
		uid = fmt.Sprintf("idp-%d", st.A)
	}
	return IdPUser{Provider: st.str("provider"), UID: uid, Email: uid + "." + st.str("provider") + "@idp.example"}
}

// ratePassword rates a password against the hash stored for the account the
// request names (independent bcrypt call, not through the library's hasher).
func (w *World) ratePassword(pid string, v string) Presented {
	p := Presented{Role: "password", Value: v}
	if row := w.DB.rows[pid]; row != nil && pwMatches(row.Password, v) {
		p.Status = "valid"
	}
	return p
}

func (w *World) codeFields(o *Obs, st *Step, fields map[string]string, secVal string) {
	if st.Sec == nil {
		return
	}
	switch st.Sec.Kind {
	case "recovery":
		if st.str("as") == "code" {
			// a recovery code typed into the code field
			fields["code"] = secVal
			v := secVal
			o.raters = append(o.raters, func() Presented { return w.rate("code", "sms", v) })
			return
		}
		fields["recovery_code"] = secVal
		{
			v := secVal
			o.raters = append(o.raters, func() Presented { return w.rate("recovery", "recovery", v) })
		}
	case "empty":
	default:
		role := "code"
		if st.str("as") == "recovery" {
			fields["recovery_code"] = secVal
			{
				v := secVal
				o.raters = append(o.raters, func() Presented { return w.rate("recovery", "recovery", v) })
			}
			return
		}
		fields["code"] = secVal
		o.raters = append(o.raters, func() Presented {
			p := w.rate(role, "sms", secVal)
			p.TOTP = map[int]string{}
			for a, sec := range w.KB.TOTPSecret {
				p.TOTP[a] = totpVerdict(sec, secVal, time.Now())
			}
			return p
		})
	}
}

func (w *World) finishNonHTTP(o *Obs) *Obs {
	br := w.Browsers[o.Step.B]
	if o.SessBefore == nil {
		o.SessBefore = copyMap(br.Session)
	}
	if o.CookBefore == nil {
		o.CookBefore = copyMap(br.Cookies)
	}
	o.SessAfter, o.CookAfter = copyMap(br.Session), copyMap(br.Cookies)
	if o.RowsBefore == nil {
		o.RowsBefore = w.rowsSnapshot()
		o.RMBefore = w.DB.rmSnapshot()
	}
	o.RowsAfter = w.rowsSnapshot()
	o.RMAfter = w.DB.rmSnapshot()
	return o
}

func (w *World) execOperator(o *Obs, st *Step, secVal string) *Obs {
	o.RowsBefore = w.rowsSnapshot()
	o.RMBefore = w.DB.rmSnapshot()
	w.cur = &reqCtx{browser: -1, fault: st.Fault, logsFrom: len(w.Logs), mailsFrom: len(w.Mails), smsFrom: len(w.SMSes)}
	ctx := context.Background()
	pid := w.pidOf(st.A, st)
	var err error
	func() {
		defer func() {
			if r := recover(); r != nil {
				w.cur.panicVal = fmt.Sprint(r)
			}
		}()
		switch st.Kind {
		case "op_lock":
			err = w.lockMod.Lock(ctx, pid)
		case "op_unlock":
			err = w.lockMod.Unlock(ctx, pid)
		case "op_update_password":
			var u authboss.User
			u, err = w.DB.Load(ctx, pid)
			if err == nil {
				ab := w.AB
				if st.str("via") == "admin" {
					// an operator tool: its own, module-less instance over the same store
					ab = w.adminInstance()
					w.Stats.Reach["op_update_password_via_admin_instance"]++
				}
				err = ab.UpdatePassword(ctx, authboss.MustBeAuthable(u), secVal)
			}
		case "op_start_confirm":
			var u authboss.User
			u, err = w.DB.Load(ctx, pid)
			if err == nil {
				err = w.confirmMod.StartConfirmation(ctx, authboss.MustBeConfirmable(u), true)
			}
		case "op_delete":
			w.DB.delete(pid)
		}
	}()
	w.sched.afterRequest(w)
	if err != nil {
		o.OpErr = err.Error()
	}
	cur := w.cur
	w.cur = nil
	o.Panic = cur.panicVal
	o.Calls = cur.calls
	o.FaultFired = cur.faultFired
	o.Logs = append([]string(nil), w.Logs[cur.logsFrom:]...)
	o.Mails = append([]MailRec(nil), w.Mails[cur.mailsFrom:]...)
	o.SMS = append([]SMSRec(nil), w.SMSes[cur.smsFrom:]...)
	return w.finishNonHTTP(o)
}

// doRequest sends one HTTP request through the full handler chain.
func (w *World) doRequest(o *Obs, st *Step, method, path, rawq, body, ctype string) *Obs {
	br := w.Browsers[st.B]
	if xq := st.str("xquery"); xq != "" {
		// a query parameter the flow knows nothing about
		if rawq != "" {
			rawq += "&"
		}
		rawq += xq
	}
	if st.Kind != "replay" {
		br.last = &lastReq{method: method, path: path, rawq: rawq, body: body, ctype: ctype, step: *st, raters: o.raters}
	}
	for _, f := range o.raters {
		o.Presented = append(o.Presented, f())
	}
	o.IsHTTP = true
	o.Method, o.ReqBody = method, body
	o.Target = path
	if rawq != "" {
		o.Target += "?" + rawq
	}
	o.SessBefore, o.CookBefore = copyMap(br.Session), copyMap(br.Cookies)
	o.RowsBefore = w.rowsSnapshot()
	o.RMBefore = w.DB.rmSnapshot()
	// the rm cookie rides along on every request
	if c, ok := br.Cookies["rm"]; ok {
		o.Presented = append(o.Presented, w.rate("cookie", "rm", c))
	}

	u := &url.URL{Path: path, RawQuery: rawq}
	if rp := st.str("rawpath"); rp != "" && st.Kind == "probe" {
		// the spelling the client used (an encoded delimiter inside a segment)
		if dec, err := url.PathUnescape(rp); err == nil && dec == path {
			u.RawPath = rp
		}
	}
	ctx, cancel := context.WithCancel(context.Background())
	req := &http.Request{
		Method: method, URL: u, Proto: "HTTP/1.1", ProtoMajor: 1, ProtoMinor: 1,
		Header: http.Header{}, Host: "site.example", RemoteAddr: "192.0.2.1:1234",
		RequestURI: u.RequestURI(),
		Body:       io.NopCloser(strings.NewReader(body)), ContentLength: int64(len(body)),
	}
	req = req.WithContext(ctx)
	req.Header.Set(browserHeader, fmt.Sprint(st.B))
	if ctype != "" {
		req.Header.Set("Content-Type", ctype)
	}
	if h := st.str("hdr"); h != "" {
		if name, val, ok := strings.Cut(h, ": "); ok {
			req.Header.Set(name, val)
		}
	}
	rec := httptest.NewRecorder()
	rec.Header().Set(browserHeader, fmt.Sprint(st.B))
	w.cur = &reqCtx{browser: st.B, fault: st.Fault, logsFrom: len(w.Logs), mailsFrom: len(w.Mails), smsFrom: len(w.SMSes)}
	w.Stats.Requests++
	func() {
		defer func() {
			if r := recover(); r != nil {
				w.cur.panicVal = fmt.Sprint(r)
			}
		}()
		w.Handler.ServeHTTP(rec, req)
	}()
	cancel()
	w.sched.afterRequest(w)
	cur := w.cur
	w.cur = nil

	o.Status = rec.Code
	rec.Header().Del(browserHeader)
	o.Header = rec.Header()
	o.Body = rec.Body.String()
	o.Location = rec.Header().Get("Location")
	if strings.HasPrefix(rec.Header().Get("Content-Type"), "application/json") || strings.HasPrefix(o.Body, "{") {
		var m map[string]interface{}
		if json.Unmarshal(rec.Body.Bytes(), &m) == nil {
			o.JSON = m
			if s, ok := m["status"].(string); ok {
				o.RespStatus = s
			}
			if l, ok := m["location"].(string); ok && o.Location == "" {
				o.Location = l
			}
		}
	}
	o.SessAfter, o.CookAfter = copyMap(br.Session), copyMap(br.Cookies)
	o.RowsAfter = w.rowsSnapshot()
	o.RMAfter = w.DB.rmSnapshot()
	o.Probe = cur.probe
	o.SessEvents, o.CookEvents, o.Writes = cur.sessEvents, cur.cookEvents, cur.writes
	o.Panic = cur.panicVal
	o.HandlerErrs = cur.handlerErrs
	o.Calls = cur.calls
	o.FaultFired = cur.faultFired
	o.Logs = append([]string(nil), w.Logs[cur.logsFrom:]...)
	o.Mails = append([]MailRec(nil), w.Mails[cur.mailsFrom:]...)
	o.SMS = append([]SMSRec(nil), w.SMSes[cur.smsFrom:]...)
	return o
}
