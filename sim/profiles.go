package sim

import (
	"strings"
	"testing"
	"time"
)

// Profile binds a property to its configuration domain, workload and oracle.
type Profile struct {
	ID string
	// Config draws the run configuration (already constrained).
	Config func(r *Rng, tier string) Config
	Gen    func(r *Rng, tier string) *genProfile
	Oracle func(w *World) Oracle
	// Nontrivial says whether a finished run exercised the property's positive
	// case at least once (reach probes of this run).
	Nontrivial func(s *Stats) bool
	// RequiredReach are probes that must be non-zero over a whole batch.
	RequiredReach []string

	// Run/Replay override the default sequence run (C11, C16, C18, C20).
	Run    func(t *testing.T, seed uint64, tier string) *RunResult
	Replay func(t *testing.T, plan Plan, keepTrace bool) *RunResult
}

var profiles = map[string]*Profile{}

func register(p *Profile) { profiles[p.ID] = p }

func steps(tier string, quick, thorough int) int {
	if tier == "thorough" {
		return thorough
	}
	return quick
}

// defaultRun generates and executes one run of a sequence-style property.
func (p *Profile) defaultRun(t *testing.T, seed uint64, tier string) *RunResult {
	r := NewRng(seed)
	cfg := p.Config(r.Fork(1), tier)
	gp := p.Gen(r.Fork(2), tier)
	plan := Plan{Prop: p.ID, Seed: seed, Tier: tier, Cfg: cfg}
	gr := r.Fork(3)
	return runSequence(t, plan, func(w *World) Generator { return newCommonGen(gr, gp, w) }, p.Oracle, false)
}

func (p *Profile) defaultReplay(t *testing.T, plan Plan, keepTrace bool) *RunResult {
	return runSequence(t, plan, nil, p.Oracle, keepTrace)
}

func (p *Profile) run(t *testing.T, seed uint64, tier string) *RunResult {
	if p.Run != nil {
		return p.Run(t, seed, tier)
	}
	return p.defaultRun(t, seed, tier)
}

func (p *Profile) replay(t *testing.T, plan Plan, keepTrace bool) *RunResult {
	if p.Replay != nil {
		return p.Replay(t, plan, keepTrace)
	}
	return p.defaultReplay(t, plan, keepTrace)
}

func init() {
	register(&Profile{
		ID: "C04",
		Config: func(r *Rng, tier string) Config {
			c := baseConfig(r)
			c.ensureModules("lock")
			c.dropModules("oauth2", "recover")
			c.dropSetups("expire")
			c.RecoverLogin = false
			c.EmailAuth2FA = false
			// windows/durations small enough that histories cross them often
			c.LockWindow = []time.Duration{3 * time.Second, 20 * time.Second, time.Minute, 5 * time.Minute, time.Hour}[r.Intn(5)]
			c.LockDuration = []time.Duration{5 * time.Second, time.Minute, 30 * time.Minute, 12 * time.Hour}[r.Intn(4)]
			for i := range c.Accounts {
				c.Accounts[i].Confirmed = true
			}
			return c
		},
		Gen: func(r *Rng, tier string) *genProfile {
			return &genProfile{
				MaxSteps: steps(tier, 30, 80), Default: 0, FollowUp: 60, Template: 45,
				Templates: []string{"fail_burst", "fail_burst", "lock_then_wait", "op_lock_cycle", "twofa_fail", "login_ok"},
				Weights: map[string]int{
					"login": 30, "otp_login": 10, "advance": 12, "op_lock": 3, "op_unlock": 5, "logout": 4,
					"totp_validate": 4, "sms_validate": 4, "otp_add": 2, "register": 1,
				},
				BadSecret: 45, ThreshGaps: 35, SmallGaps: 30,
				Thresholds: func(c *Config) []time.Duration { return []time.Duration{c.LockWindow, c.LockDuration} },
			}
		},
		Oracle: newC04Oracle,
		Nontrivial: func(s *Stats) bool {
			return s.Reach["c04_lock_triggered"] > 0 || s.Reach["c04_login_completed"] > 0
		},
		RequiredReach: []string{"c04_lock_triggered", "c04_login_completed", "c04_locked_login_refused", "c04_failure_login"},
	})

	loginWeights := map[string]int{
		"login": 20, "otp_login": 8, "otp_add": 4, "otp_clear": 1, "logout": 5, "register": 4, "recover_start": 4, "recover_end": 6,
		"confirm": 4, "oauth2_start": 4, "oauth2_callback": 4, "totp_validate": 5, "sms_validate": 5, "totp_setup": 2, "totp_confirm": 2,
		"sms_setup": 2, "sms_confirm": 2, "totp_remove": 1, "sms_remove": 1, "probe": 6, "drop_session": 5, "copy_cookie": 2, "stale_cookie": 3,
		"set_cookie": 1, "advance": 4, "op_lock": 1, "op_unlock": 1, "op_update_password": 1, "replay": 4, "recovery_regen": 1,
		"everify_start": 1, "everify_end": 1, "login_get": 1, "app_session_put": 1, "recover_end_get": 1, "op_start_confirm": 1,
		"totp_setup_get": 1, "sms_setup_get": 1,
	}
	loginTemplates := []string{"login_ok", "remember_cycle", "recover_flow", "register_flow", "oauth_flow", "otp_flow", "fail_burst"}
	register(&Profile{
		ID: "C01",
		Config: func(r *Rng, tier string) Config {
			c := baseConfig(r)
			c.dropSetups("expire")
			c.EmailAuth2FA = false
			if r.Chance(2, 3) {
				c.dropModules("lock")
			}
			if r.Chance(2, 3) {
				c.dropModules("confirm")
			}
			return c
		},
		Gen: func(r *Rng, tier string) *genProfile {
			return &genProfile{MaxSteps: steps(tier, 40, 100), Default: 1, FollowUp: 65, Template: 30, Templates: loginTemplates,
				Weights: loginWeights, BadSecret: 45, ThreshGaps: 12, SmallGaps: 20, Redir: 10, FaultRate: 0}
		},
		Oracle: newC01Oracle,
		Nontrivial: func(s *Stats) bool {
			for k, v := range s.Reach {
				if strings.HasPrefix(k, "c01_ok_") && v > 0 {
					return true
				}
			}
			return false
		},
		RequiredReach: []string{"c01_ok_password", "c01_ok_otp", "c01_ok_rm", "c01_ok_recover", "c01_ok_oauth2", "c01_ok_register", "c01_ok_2fa_pending"},
	})
}
