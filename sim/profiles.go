package sim

import (
	"strings"
	"testing"
	"time"
)

// Profile binds a property to its configuration domain, workload and oracle.
type Profile struct {
	ID string
	// Config draws the run configuration (already constrained).
	Config func(r *Rng, tier string) Config
	Gen    func(r *Rng, tier string) *genProfile
	Oracle func(w *World) Oracle
	// GenFn, when set, replaces the common generator.
	GenFn func(r *Rng, tier string, w *World) Generator
	// Nontrivial says whether a finished run exercised the property's positive
	// case at least once (reach probes of this run).
	Nontrivial func(s *Stats) bool
	// RequiredReach are probes that must be non-zero over a whole batch.
	RequiredReach []string

	// Run/Replay override the default sequence run (C11, C16, C18, C20).
	Run    func(t *testing.T, seed uint64, tier string) *RunResult
	Replay func(t *testing.T, plan Plan, keepTrace bool) *RunResult
}

var profiles = map[string]*Profile{}

func register(p *Profile) { profiles[p.ID] = p }

func steps(tier string, quick, thorough int) int {
	if tier == "thorough" {
		return thorough
	}
	return quick
}

// defaultRun generates and executes one run of a sequence-style property.
func (p *Profile) defaultRun(t *testing.T, seed uint64, tier string) *RunResult {
	r := NewRng(seed)
	cfg := p.Config(r.Fork(1), tier)
	gr2 := r.Fork(2)
	plan := Plan{Prop: p.ID, Seed: seed, Tier: tier, Cfg: cfg}
	gr := r.Fork(3)
	return runSequence(t, plan, func(w *World) Generator {
		if p.GenFn != nil {
			return p.GenFn(gr, tier, w)
		}
		return newCommonGen(gr, p.Gen(gr2, tier), w)
	}, p.Oracle, false)
}

func (p *Profile) defaultReplay(t *testing.T, plan Plan, keepTrace bool) *RunResult {
	return runSequence(t, plan, nil, p.Oracle, keepTrace)
}

// curRunIndex is the index of the current run within its batch (-1 outside a
// batch). Enumerating profiles use it to walk their table in order instead of
// sampling it, so that a batch covers every row.
var curRunIndex = -1

func (p *Profile) run(t *testing.T, seed uint64, tier string) *RunResult {
	if p.Run != nil {
		return p.Run(t, seed, tier)
	}
	return p.defaultRun(t, seed, tier)
}

func (p *Profile) replay(t *testing.T, plan Plan, keepTrace bool) *RunResult {
	if p.Replay != nil {
		return p.Replay(t, plan, keepTrace)
	}
	return p.defaultReplay(t, plan, keepTrace)
}

func init() {
	register(&Profile{
		ID: "C04",
		Config: func(r *Rng, tier string) Config {
			c := baseConfig(r)
			c.ensureModules("lock")
			c.dropModules("oauth2", "recover")
			c.dropSetups("expire")
			c.RecoverLogin = false
			c.EmailAuth2FA = false
			// windows/durations small enough that histories cross them often
			c.LockWindow = []time.Duration{3 * time.Second, 20 * time.Second, time.Minute, 5 * time.Minute, time.Hour}[r.Intn(5)]
			c.LockDuration = []time.Duration{5 * time.Second, time.Minute, 30 * time.Minute, 12 * time.Hour}[r.Intn(4)]
			for i := range c.Accounts {
				c.Accounts[i].Confirmed = true
			}
			return c
		},
		Gen: func(r *Rng, tier string) *genProfile {
			return &genProfile{
				MaxSteps: steps(tier, 30, 80), Default: 0, FollowUp: 60, Template: 45,
				Templates: []string{"fail_burst", "fail_burst", "lock_then_wait", "op_lock_cycle", "twofa_fail", "login_ok"},
				Weights: map[string]int{
					"login": 30, "otp_login": 10, "advance": 12, "op_lock": 3, "op_unlock": 5, "logout": 4,
					"totp_validate": 4, "sms_validate": 4, "otp_add": 2, "register": 1,
				},
				BadSecret: 45, ThreshGaps: 35, SmallGaps: 30,
				Thresholds: func(c *Config) []time.Duration { return []time.Duration{c.LockWindow, c.LockDuration} },
			}
		},
		Oracle: newC04Oracle,
		Nontrivial: func(s *Stats) bool {
			return s.Reach["c04_lock_triggered"] > 0 || s.Reach["c04_login_completed"] > 0
		},
		RequiredReach: []string{"c04_lock_triggered", "c04_login_completed", "c04_locked_login_refused", "c04_failure_login"},
	})

	loginWeights := map[string]int{
		"login": 20, "otp_login": 8, "otp_add": 4, "otp_clear": 1, "logout": 5, "register": 4, "recover_start": 4, "recover_end": 6,
		"confirm": 4, "oauth2_start": 4, "oauth2_callback": 4, "totp_validate": 5, "sms_validate": 5, "totp_setup": 2, "totp_confirm": 2,
		"sms_setup": 2, "sms_confirm": 2, "totp_remove": 1, "sms_remove": 1, "probe": 6, "drop_session": 5, "copy_cookie": 2, "stale_cookie": 3,
		"set_cookie": 1, "advance": 4, "op_lock": 1, "op_unlock": 1, "op_update_password": 1, "replay": 4, "recovery_regen": 1,
		"everify_start": 1, "everify_end": 1, "login_get": 1, "app_session_put": 1, "recover_end_get": 1, "op_start_confirm": 1,
		"totp_setup_get": 1, "sms_setup_get": 1, "restart": 2, "second_site": 1,
	}
	loginTemplates := []string{"login_ok", "remember_cycle", "recover_flow", "register_flow", "oauth_flow", "otp_flow", "fail_burst", "forged_cookie", "pw_near_miss"}
	register(&Profile{
		ID: "C01",
		Config: func(r *Rng, tier string) Config {
			c := baseConfig(r)
			c.dropSetups("expire")
			c.EmailAuth2FA = false
			if r.Chance(2, 3) {
				c.dropModules("lock")
			}
			if r.Chance(2, 3) {
				c.dropModules("confirm")
			}
			return c
		},
		Gen: func(r *Rng, tier string) *genProfile {
			return &genProfile{MaxSteps: steps(tier, 40, 100), Default: 1, FollowUp: 65, Template: 30, Templates: loginTemplates,
				Weights: loginWeights, BadSecret: 45, ThreshGaps: 12, SmallGaps: 20, Redir: 10, FaultRate: []int{0, 0, 80}[r.Intn(3)], WrongJSONTypes: true}
		},
		Oracle: newC01Oracle,
		Nontrivial: func(s *Stats) bool {
			for k, v := range s.Reach {
				if strings.HasPrefix(k, "c01_ok_") && v > 0 {
					return true
				}
			}
			return false
		},
		// one run in eight lets several browsers post the login form for one
		// account at the same time (c01conc.go); the others are sequential histories
		Run: func(t *testing.T, seed uint64, tier string) *RunResult {
			if seed%8 == 0 {
				return c01ConcExec(t, c01ConcGenerate(seed, tier), false)
			}
			return profiles["C01"].defaultRun(t, seed, tier)
		},
		Replay: func(t *testing.T, plan Plan, keepTrace bool) *RunResult {
			if plan.Mode == "c01conc" {
				return c01ConcExec(t, plan, keepTrace)
			}
			return profiles["C01"].defaultReplay(t, plan, keepTrace)
		},
		RequiredReach: []string{"c01_ok_password", "c01_ok_otp", "c01_ok_rm", "c01_ok_recover", "c01_ok_oauth2", "c01_ok_register", "c01_ok_2fa_pending",
			"c01_conc_right_accepted", "c01_conc_wrong_refused"},
	})

	withW := func(base map[string]int, over map[string]int) map[string]int {
		m := map[string]int{}
		for k, v := range base {
			m[k] = v
		}
		for k, v := range over {
			m[k] = v
		}
		return m
	}
	anyReach := func(prefix string) func(s *Stats) bool {
		return func(s *Stats) bool {
			for k, v := range s.Reach {
				if strings.HasPrefix(k, prefix) && v > 0 {
					return true
				}
			}
			return false
		}
	}
	register(&Profile{
		ID: "C12",
		Config: func(r *Rng, tier string) Config {
			c := baseConfig(r)
			c.dropSetups("expire")
			c.ensureModules("otp", "logout")
			c.ensureSetups("totp", "sms", "recovery")
			c.EmailAuth2FA = false
			if r.Chance(2, 3) {
				c.dropModules("lock")
			}
			c.dropModules("confirm", "oauth2")
			for i := range c.Accounts {
				if c.Accounts[i].OTPs == 0 && r.Bool() {
					c.Accounts[i].OTPs = 1 + r.Intn(4)
				}
				if !c.Accounts[i].TOTP && !c.Accounts[i].SMS && r.Bool() {
					if r.Bool() {
						c.Accounts[i].TOTP = true
					} else {
						c.Accounts[i].SMS = true
					}
				}
			}
			return c
		},
		Gen: func(r *Rng, tier string) *genProfile {
			return &genProfile{MaxSteps: steps(tier, 40, 100), Default: 0, FollowUp: 70, Template: 25,
				Templates: []string{"otp_flow", "login_ok", "otp_fill", "totp_replay", "sms_send_fails"},
				Weights: withW(loginWeights, map[string]int{"otp_login": 20, "otp_add": 10, "otp_clear": 2, "replay": 12, "totp_validate": 8, "sms_validate": 8,
					"recovery_regen": 3, "totp_remove": 2, "sms_remove": 2, "register": 0, "recover_start": 0, "recover_end": 0, "confirm": 0, "oauth2_start": 0, "oauth2_callback": 0,
					"advance": 6}),
				BadSecret: 40, FaultRate: []int{0, 0, 60}[r.Intn(3)], ThreshGaps: 10, SmallGaps: 25,
				Thresholds: func(c *Config) []time.Duration {
					return []time.Duration{10 * time.Second, 30 * time.Second, 30 * time.Second}
				}}
		},
		Oracle:        newC12Oracle,
		Nontrivial:    anyReach("c12_"),
		RequiredReach: []string{"c12_otp_accepted", "c12_spent_otp_rejected", "c12_recovery_accepted", "c12_spent_recovery_rejected", "c12_sms_accepted", "c12_totp_accepted", "c12_totp_repeat_rejected"},
	})
	register(&Profile{
		ID: "C07",
		Config: func(r *Rng, tier string) Config {
			c := baseConfig(r)
			c.dropSetups("expire")
			c.ensureModules("remember", "logout")
			c.EmailAuth2FA = false
			c.OddPIDs = r.Bool()
			if r.Chance(2, 3) {
				c.dropModules("lock")
			}
			if r.Chance(2, 3) {
				c.dropModules("confirm")
			}
			return c
		},
		Gen: func(r *Rng, tier string) *genProfile {
			return &genProfile{MaxSteps: steps(tier, 40, 100), Default: 0, FollowUp: 60, Template: 40,
				Templates: []string{"remember_cycle", "remember_cycle", "oauth_remember", "oauth_stale_params", "forged_cookie", "cookie_at_validate", "remember_then_reset", "recover_flow", "login_ok", "cookie_rotation_fails"},
				Weights: withW(loginWeights, map[string]int{"probe": 14, "drop_session": 10, "copy_cookie": 5, "stale_cookie": 7, "set_cookie": 3, "logout": 6,
					"op_update_password": 3, "register": 1, "confirm": 1}),
				BadSecret: 30, ThreshGaps: 5, SmallGaps: 20, FaultRate: []int{0, 0, 60}[r.Intn(3)]}
		},
		Oracle:     newC07Oracle,
		Nontrivial: anyReach("c07_cookie_"),
		// one run in eight presents the same cookie from several browsers whose
		// requests overlap (c07conc.go); the others are sequential histories
		Run: func(t *testing.T, seed uint64, tier string) *RunResult {
			if seed%8 == 0 {
				return c07ConcExec(t, c07ConcGenerate(seed, tier), false)
			}
			return profiles["C07"].defaultRun(t, seed, tier)
		},
		Replay: func(t *testing.T, plan Plan, keepTrace bool) *RunResult {
			if plan.Mode == "c07conc" {
				return c07ConcExec(t, plan, keepTrace)
			}
			return profiles["C07"].defaultReplay(t, plan, keepTrace)
		},
		RequiredReach: []string{"c07_cookie_authenticated", "c07_cookie_issued", "c07_dead_cookie_refused_spent", "c07_dead_cookie_refused_unknown", "c07_dead_cookie_refused_revoked", "c07_halfauth_cleared", "c07_plain_start_after_rm_start",
			"c07_conc_exactly_one"},
	})
	register(&Profile{
		ID: "C06",
		Config: func(r *Rng, tier string) Config {
			c := baseConfig(r)
			c.dropSetups("expire")
			c.ensureModules("recover")
			if r.Chance(3, 4) {
				c.ensureModules("remember")
			}
			c.EmailAuth2FA = false
			c.PwAllowSpace = r.Bool()
			if r.Chance(2, 3) {
				c.dropModules("lock")
			}
			if r.Chance(2, 3) {
				c.dropModules("confirm")
			}
			return c
		},
		Gen: func(r *Rng, tier string) *genProfile {
			return &genProfile{MaxSteps: steps(tier, 40, 100), Default: 0, FollowUp: 60, Template: 45,
				Templates: []string{"recover_flow", "recover_flow", "remember_then_reset", "remember_cycle", "op_reset", "rotated_then_reset", "reset_revocation_fails"},
				Weights: withW(loginWeights, map[string]int{"recover_start": 8, "recover_end": 10, "op_update_password": 8, "probe": 10, "drop_session": 6,
					"stale_cookie": 6, "copy_cookie": 3, "oauth2_start": 1, "oauth2_callback": 1}),
				BadSecret: 30, FaultRate: []int{0, 0, 60}[r.Intn(3)], ThreshGaps: 8, SmallGaps: 20}
		},
		Oracle:        newC06Oracle,
		Nontrivial:    anyReach("c06_change_"),
		RequiredReach: []string{"c06_change_recover_end", "c06_change_op_update_password", "c06_tokens_revoked", "c06_old_password_refused", "c06_new_password_accepted", "c06_revoked_cookie_refused"},
	})
	register(&Profile{
		ID: "C05",
		Config: func(r *Rng, tier string) Config {
			c := baseConfig(r)
			c.dropSetups("expire")
			c.ensureModules("recover", "confirm")
			c.EmailAuth2FA = false
			if r.Chance(2, 3) {
				c.dropModules("lock")
			}
			c.RecoverDur = []time.Duration{5 * time.Second, time.Minute, time.Hour, 24 * time.Hour}[r.Intn(4)]
			for i := range c.Accounts {
				c.Accounts[i].Confirmed = r.Bool()
			}
			return c
		},
		Gen: func(r *Rng, tier string) *genProfile {
			tpl := []string{"recover_flow", "confirm_flow", "token_near_miss", "token_near_miss", "register_flow", "recover_late_after_get"}
			if tier == "thorough" {
				tpl = append(tpl, "token_flip_sweep")
			}
			return &genProfile{MaxSteps: steps(tier, 45, 160), Default: 0, FollowUp: 40, Template: 45,
				Templates: tpl,
				Weights: withW(loginWeights, map[string]int{"recover_start": 10, "recover_end": 14, "confirm": 14, "op_start_confirm": 8, "register": 5, "replay": 6,
					"recover_end_get": 2, "oauth2_start": 0, "oauth2_callback": 0, "otp_login": 1, "totp_validate": 1, "sms_validate": 1}),
				BadSecret: 55, FaultRate: []int{0, 0, 60}[r.Intn(3)], ThreshGaps: 25, SmallGaps: 20,
				Thresholds: func(c *Config) []time.Duration { return []time.Duration{c.RecoverDur} }}
		},
		Oracle:        newC05Oracle,
		Nontrivial:    anyReach("c05_"),
		RequiredReach: []string{"c05_confirm_accepted", "c05_recover_accepted", "c05_genuine_usable_after_rejects", "c05_rejected_recover_expired", "c05_rejected_recover_superseded", "c05_rejected_recover_spent", "c05_rejected_confirm_spent", "c05_rejected_confirm_unknown", "c05_rejected_recover_unknown"},
	})

	register(&Profile{
		ID: "C02",
		Config: func(r *Rng, tier string) Config {
			c := baseConfig(r)
			c.dropSetups("expire")
			switch r.Intn(3) {
			case 0:
				c.ensureSetups("totp")
				c.dropSetups("sms")
			case 1:
				c.ensureSetups("sms")
				c.dropSetups("totp")
			default:
				c.ensureSetups("totp", "sms")
			}
			c.ensureSetups("recovery")
			c.EmailAuth2FA = false
			c.dropModules("oauth2", "register")
			if r.Chance(2, 3) {
				c.dropModules("lock")
			}
			if r.Chance(2, 3) {
				c.dropModules("confirm")
			}
			for i := range c.Accounts {
				a := &c.Accounts[i]
				a.Confirmed = true
				a.TOTP, a.SMS = false, false
				switch r.Intn(4) {
				case 0:
				case 1:
					a.TOTP = c.hasSetup("totp")
					a.SMS = !a.TOTP
				case 2:
					a.SMS = c.hasSetup("sms")
					a.TOTP = !a.SMS
				default:
					a.TOTP, a.SMS = c.hasSetup("totp"), c.hasSetup("sms")
				}
			}
			return c
		},
		Gen: func(r *Rng, tier string) *genProfile {
			return &genProfile{MaxSteps: steps(tier, 40, 100), Default: 0, FollowUp: 65, Template: 40,
				Templates: []string{"adversary_sms", "adversary_sms", "adversary_codes", "adversary_codes", "recover_flow", "login_ok", "otp_flow", "sms_send_fails"},
				Weights: withW(loginWeights, map[string]int{"totp_validate": 10, "sms_validate": 12, "login": 24, "replay": 3, "advance": 8,
					"totp_setup": 1, "sms_setup": 1, "register": 0, "oauth2_start": 0, "oauth2_callback": 0, "confirm": 0}),
				BadSecret: 45, FaultRate: []int{0, 0, 60}[r.Intn(3)], ThreshGaps: 25, SmallGaps: 30,
				Thresholds: func(c *Config) []time.Duration {
					return []time.Duration{10 * time.Second, 30 * time.Second, 60 * time.Second}
				}}
		},
		Oracle:        newC02Oracle,
		Nontrivial:    anyReach("c02_"),
		RequiredReach: []string{"c02_parked_login", "c02_completed_totp", "c02_completed_sms", "c02_completed_recovery"},
	})
	register(&Profile{
		ID: "C03",
		Config: func(r *Rng, tier string) Config {
			c := baseConfig(r)
			c.dropSetups("expire")
			switch r.Intn(3) {
			case 0:
				c.ensureModules("lock")
			case 1:
				c.ensureModules("confirm")
			default:
				c.ensureModules("lock", "confirm")
			}
			c.EmailAuth2FA = false
			c.LockDuration = []time.Duration{5 * time.Second, time.Minute, time.Hour}[r.Intn(3)]
			for i := range c.Accounts {
				c.Accounts[i].Confirmed = r.Chance(2, 3)
			}
			return c
		},
		Gen: func(r *Rng, tier string) *genProfile {
			return &genProfile{MaxSteps: steps(tier, 40, 100), Default: 0, FollowUp: 65, Template: 45,
				Templates: []string{"gate_between_steps", "gate_between_steps", "gated_paths", "gated_paths", "oauth_gated", "fail_burst", "remember_cycle", "login_ok", "regate_while_logged_in"},
				Weights:   withW(loginWeights, map[string]int{"op_lock": 6, "op_unlock": 3, "op_start_confirm": 5, "probe": 10, "confirm": 5, "advance": 6}),
				BadSecret: 25, FaultRate: []int{0, 0, 60}[r.Intn(3)], ThreshGaps: 20, SmallGaps: 20,
				Thresholds: func(c *Config) []time.Duration { return []time.Duration{c.LockDuration, c.LockWindow} }}
		},
		Oracle:     newC03Oracle,
		Nontrivial: anyReach("c03_refused_"),
		RequiredReach: []string{"c03_refused_locked_login", "c03_refused_unconfirmed_login", "c03_login_ok_login", "c03_mw_passed", "c03_mw_refused_locked", "c03_mw_refused_unconfirmed",
			"c03_login_ok_oauth2_callback", "c03_login_ok_totp_validate"},
	})
	register(&Profile{
		ID: "C13",
		Config: func(r *Rng, tier string) Config {
			c := baseConfig(r)
			c.dropSetups("expire")
			c.ensureSetups("totp", "sms", "recovery")
			c.EmailAuth2FA = r.Bool()
			c.dropModules("oauth2", "register", "lock", "confirm")
			c.ensureModules("remember", "logout")
			for i := range c.Accounts {
				c.Accounts[i].Confirmed = true
			}
			return c
		},
		Gen: func(r *Rng, tier string) *genProfile {
			return &genProfile{MaxSteps: steps(tier, 30, 70), Default: 0, FollowUp: 70, Template: 50,
				Templates: []string{"enroll_totp", "enroll_sms", "everify_probe", "remove_factor", "remove_factor", "spent_recovery_remove", "halfauth_settings", "halfauth_settings", "factor_change_between_steps", "adversary_codes",
					"second_factor_enrol", "twofa_then_other_password"},
				Weights: withW(loginWeights, map[string]int{"totp_setup": 6, "totp_confirm": 6, "totp_remove": 6, "sms_setup": 6, "sms_confirm": 6, "sms_remove": 6,
					"recovery_regen": 2, "everify_start": 5, "everify_end": 6, "totp_setup_get": 2, "sms_setup_get": 2, "recover_start": 0, "recover_end": 0, "otp_login": 2,
					"drop_session": 4, "probe": 3}),
				BadSecret: 40, FaultRate: []int{0, 0, 50}[r.Intn(3)], ThreshGaps: 15, SmallGaps: 25,
				Thresholds: func(c *Config) []time.Duration { return []time.Duration{10 * time.Second, 30 * time.Second} }}
		},
		Oracle:        newC13Oracle,
		Nontrivial:    anyReach("c13_"),
		RequiredReach: []string{"c13_totp_enabled", "c13_sms_enabled", "c13_totp_disabled", "c13_sms_disabled", "c13_everify_ok", "c13_recovery_code_consumed"},
	})

	register(&Profile{
		ID: "C08",
		Config: func(r *Rng, tier string) Config {
			c := baseConfig(r)
			c.dropSetups("expire")
			c.ensureModules("logout")
			c.ensureSetups("totp")
			c.dropModules("lock", "confirm")
			if r.Chance(2, 3) {
				c.ensureModules("remember")
			}
			if r.Chance(1, 4) {
				c.Mount = "/pro" // the paths of the protected routes (/probe/...) begin with the mount string
			}
			c.EmailAuth2FA = false
			for i := range c.Accounts {
				c.Accounts[i].Confirmed = true
				c.Accounts[i].SMS = false
				c.Accounts[i].TOTP = i == 0
			}
			return c
		},
		GenFn: func(r *Rng, tier string, w *World) Generator {
			return &c08Gen{r: r, max: steps(tier, 2, 5)}
		},
		Oracle:     newC08Oracle,
		Nontrivial: anyReach("c08_admitted"),
		RequiredReach: []string{"c08_admitted", "c08_admitted_reqs1", "c08_admitted_reqs2", "c08_admitted_reqs3", "c08_refused_mode0", "c08_refused_mode1", "c08_refused_mode2",
			"c08_storage_error_500", "c08_cookie_authenticated_request", "c08_redirect_target_ok_plain", "c08_redirect_target_ok_with_query", "c08_redirect_target_ok_path_special"},
	})
	register(&Profile{
		ID: "C09",
		Config: func(r *Rng, tier string) Config {
			c := baseConfig(r)
			c.ensureSetups("expire")
			c.dropModules("remember", "lock")
			c.ensureModules("logout")
			if r.Chance(1, 2) {
				c.dropModules("confirm")
			}
			c.EmailAuth2FA = false
			c.ExpireAfter = []time.Duration{2 * time.Second, 30 * time.Second, 5 * time.Minute, time.Hour, 24 * time.Hour}[r.Intn(5)]
			c.ExpireLate = r.Chance(1, 4)
			if !c.ExpireLate && r.Chance(1, 4) {
				c.ExpireWithRemember = true
				c.ensureModules("remember")
			}
			if len(c.Whitelist) == 0 && r.Bool() {
				c.Whitelist = []string{"app_cart"}
			}
			for i := range c.Accounts {
				c.Accounts[i].Confirmed = true
			}
			return c
		},
		Gen: func(r *Rng, tier string) *genProfile {
			return &genProfile{MaxSteps: steps(tier, 40, 100), Default: 0, FollowUp: 60, Template: 35,
				Templates: []string{"login_ok", "idle_probe", "idle_probe", "relogin_after_idle", "oauth_flow", "register_flow", "otp_flow", "recover_flow", "upgrade_to_expire", "cookie_then_idle", "mangled_then_idle"},
				Weights: withW(loginWeights, map[string]int{"probe": 30, "advance": 10, "app_session_put": 8, "logout": 3, "oauth2_start": 4, "oauth2_callback": 4,
					"register": 4, "drop_session": 1, "copy_cookie": 0, "stale_cookie": 0, "set_cookie": 0, "totp_setup": 3, "sms_setup": 3, "everify_start": 0}),
				BadSecret: 20, ThreshGaps: 45, SmallGaps: 25,
				Thresholds: func(c *Config) []time.Duration { return []time.Duration{c.ExpireAfter} }}
		},
		Oracle:        newC09Oracle,
		Nontrivial:    anyReach("c09_expired_request"),
		RequiredReach: []string{"c09_expired_request", "c09_live_request", "c09_login_login", "c09_login_oauth2_callback", "c09_login_register", "c09_login_totp_validate", "c09_relogin_over_existing_session"},
	})
	register(&Profile{
		ID: "C10",
		Config: func(r *Rng, tier string) Config {
			c := baseConfig(r)
			c.ensureModules("logout")
			if r.Chance(1, 4) {
				c.ensureSetups("expire")
				c.dropModules("remember")
			} else {
				c.dropSetups("expire")
				if r.Chance(1, 5) {
					// an application that whitelists one of the keys that make
					// the browser somebody (only without the expire module,
					// which hands whitelisted keys to downstream handlers)
					c.Whitelist = append(c.Whitelist, []string{"uid", "halfauth", "last_action"}[r.Intn(3)])
				}
			}
			if r.Chance(2, 3) {
				c.dropModules("lock")
			}
			if r.Chance(2, 3) {
				c.dropModules("confirm")
			}
			return c
		},
		Gen: func(r *Rng, tier string) *genProfile {
			return &genProfile{MaxSteps: steps(tier, 40, 100), Default: 1, FollowUp: 35, Template: 40,
				Templates: []string{"logout_from_state", "logout_from_state", "logout_from_state", "remember_cycle", "enroll_totp", "enroll_sms"},
				Weights: withW(loginWeights, map[string]int{"logout": 16, "probe": 8, "app_session_put": 8, "oauth2_start": 6, "totp_setup": 5, "sms_setup": 5, "everify_start": 4,
					"login": 20, "advance": 5}),
				BadSecret: 20, ThreshGaps: 10, SmallGaps: 20}
		},
		Oracle:     newC10Oracle,
		Nontrivial: anyReach("c10_logout_from_"),
		RequiredReach: []string{"c10_logout_from_uid", "c10_logout_from_anon", "c10_next_request_refused", "c10_wrong_method_ignored", "c10_whitelisted_kept", "c10_cookie_removed",
			"c10_logout_from_pending", "c10_logout_from_oauth2"},
	})

	register(&Profile{
		ID: "C14",
		Config: func(r *Rng, tier string) Config {
			c := baseConfig(r)
			c.dropSetups("expire")
			c.ensureModules("oauth2", "logout")
			c.Providers = []string{"google", "fb2"}
			c.EmailAuth2FA = false
			if r.Chance(2, 3) {
				c.dropModules("lock")
			}
			c.dropModules("confirm")
			// what a failed callback leaves in the session only reaches the
			// browser when the error handler answers
			c.Err500 = r.Bool()
			return c
		},
		Gen: func(r *Rng, tier string) *genProfile {
			return &genProfile{MaxSteps: steps(tier, 40, 100), Default: 0, FollowUp: 55, Template: 35,
				Templates: []string{"oauth_flow", "oauth_flow", "oauth_cross", "oauth_remember", "login_ok", "oauth_provider_mixup", "callback_exchange_fails", "callback_exchange_fails", "callback_exchange_fails"},
				Weights: withW(loginWeights, map[string]int{"oauth2_start": 20, "oauth2_callback": 24, "replay": 10, "logout": 5, "login": 5, "probe": 3,
					"recover_start": 0, "recover_end": 0, "register": 1, "totp_validate": 1, "sms_validate": 1, "op_lock": 2, "op_unlock": 1}),
				BadSecret: 35, FaultRate: []int{0, 0, 60}[r.Intn(3)], ThreshGaps: 5, SmallGaps: 15, Redir: 15}
		},
		Oracle:     newC14Oracle,
		Nontrivial: anyReach("c14_login"),
		RequiredReach: []string{"c14_login", "c14_state_spent", "c14_pid_roundtrip", "c14_pid_unparsable", "c14_refused_provider_error", "c14_refused_no_session_state",
			"c14_refused_replayed", "c14_refused_cross_browser", "c14_refused_mismatch"},
	})
	register(&Profile{
		ID: "C15",
		Config: func(r *Rng, tier string) Config {
			c := baseConfig(r)
			c.dropSetups("expire")
			c.ensureModules("oauth2", "otp")
			c.ensureSetups("totp", "sms")
			c.JSON = r.Bool()
			if c.JSON {
				c.MailRouteMethod = "POST"
			} else {
				c.MailRouteMethod = "GET"
			}
			c.EmailAuth2FA = false
			c.dropModules("lock", "confirm")
			for i := range c.Accounts {
				c.Accounts[i].Confirmed = true
				if c.Accounts[i].OTPs == 0 {
					c.Accounts[i].OTPs = 2
				}
			}
			return c
		},
		Gen: func(r *Rng, tier string) *genProfile {
			return &genProfile{MaxSteps: steps(tier, 40, 100), Default: 0, FollowUp: 70, Template: 35,
				Templates: []string{"oauth_flow", "login_ok", "otp_flow", "twofa_redir"},
				Weights: withW(loginWeights, map[string]int{"login": 24, "otp_login": 10, "oauth2_start": 12, "oauth2_callback": 12, "totp_validate": 8, "sms_validate": 8,
					"logout": 6, "login_get": 2, "probe": 4, "recover_start": 1, "recover_end": 1, "register": 1}),
				BadSecret: 10, ThreshGaps: 3, SmallGaps: 15, Redir: 85, RedirGen: genRedirTarget}
		},
		Oracle:     newC15Oracle,
		Nontrivial: anyReach("c15_"),
		RequiredReach: []string{"c15_local_target_honoured_login", "c15_local_target_honoured_otp_login", "c15_local_target_honoured_totp_validate", "c15_local_target_honoured_sms_validate",
			"c15_local_target_honoured_oauth2_callback", "c15_offsite_target_ignored"},
	})

	register(&Profile{
		ID: "C17",
		Config: func(r *Rng, tier string) Config {
			c := baseConfig(r)
			if r.Chance(1, 5) {
				c.ensureSetups("expire")
				c.dropModules("remember")
			} else {
				c.dropSetups("expire")
			}
			c.ensureModules("confirm", "recover")
			c.SlowMail = r.Chance(1, 3)
			if c.SlowMail {
				c.MailNoGoroutine = false
			}
			if r.Chance(1, 2) {
				c.dropModules("lock")
			}
			return c
		},
		Gen: func(r *Rng, tier string) *genProfile {
			return &genProfile{MaxSteps: steps(tier, 40, 100), Default: 1, FollowUp: 60, Template: 35,
				Templates: []string{"recover_flow", "confirm_flow", "token_near_miss", "register_flow", "otp_flow", "remember_cycle", "enroll_totp", "everify_link_elsewhere", "login_ok", "cookie_rotation_fails"},
				Weights:   loginWeights, BadSecret: 40, ThreshGaps: 10, SmallGaps: 20, FaultRate: 60, Redir: 5, WrongJSONTypes: true}
		},
		Oracle:        newC17Oracle,
		Nontrivial:    func(s *Stats) bool { return s.Reach["c17_secrets_scanned"] > 0 && s.Reach["c17_log_lines_scanned"] > 0 },
		RequiredReach: []string{"c17_secrets_scanned", "c17_log_lines_scanned", "c17_mail_checked_confirm", "c17_mail_checked_recover", "c17_mail_checked_everify"},
	})
	register(&Profile{
		ID: "C19",
		Config: func(r *Rng, tier string) Config {
			c := baseConfig(r)
			c.dropSetups("expire")
			c.ensureModules("register", "logout")
			if r.Bool() {
				c.ensureModules("confirm")
			} else {
				c.dropModules("confirm")
			}
			c.PwMinLen = r.Intn(13)
			c.PwMinUpper, c.PwMinLower, c.PwMinNum, c.PwMinSym = r.Intn(3), r.Intn(3), r.Intn(3), r.Intn(3)
			c.PwAllowSpace = r.Bool()
			return c
		},
		GenFn: func(r *Rng, tier string, w *World) Generator {
			return &c19Gen{r: r, max: steps(tier, 30, 80)}
		},
		Oracle:        newC19Oracle,
		Nontrivial:    anyReach("c19_created"),
		RequiredReach: []string{"c19_created", "c19_duplicate", "c19_logged_in", "c19_not_logged_in_with_confirm", "c19_policy_ok_accepted", "c19_policy_bad_rejected"},
	})
}
