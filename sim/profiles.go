package sim

import (
	"testing"
	"time"
)

// Profile binds a property to its configuration domain, workload and oracle.
type Profile struct {
	ID string
	// Config draws the run configuration (already constrained).
	Config func(r *Rng, tier string) Config
	Gen    func(r *Rng, tier string) *genProfile
	Oracle func(w *World) Oracle
	// Nontrivial says whether a finished run exercised the property's positive
	// case at least once (reach probes of this run).
	Nontrivial func(s *Stats) bool
	// RequiredReach are probes that must be non-zero over a whole batch.
	RequiredReach []string

	// Run/Replay override the default sequence run (C11, C16, C18, C20).
	Run    func(t *testing.T, seed uint64, tier string) *RunResult
	Replay func(t *testing.T, plan Plan, keepTrace bool) *RunResult
}

var profiles = map[string]*Profile{}

func register(p *Profile) { profiles[p.ID] = p }

func steps(tier string, quick, thorough int) int {
	if tier == "thorough" {
		return thorough
	}
	return quick
}

// defaultRun generates and executes one run of a sequence-style property.
func (p *Profile) defaultRun(t *testing.T, seed uint64, tier string) *RunResult {
	r := NewRng(seed)
	cfg := p.Config(r.Fork(1), tier)
	gp := p.Gen(r.Fork(2), tier)
	plan := Plan{Prop: p.ID, Seed: seed, Tier: tier, Cfg: cfg}
	gr := r.Fork(3)
	return runSequence(t, plan, func(w *World) Generator { return newCommonGen(gr, gp, w) }, p.Oracle, false)
}

func (p *Profile) defaultReplay(t *testing.T, plan Plan, keepTrace bool) *RunResult {
	return runSequence(t, plan, nil, p.Oracle, keepTrace)
}

func (p *Profile) run(t *testing.T, seed uint64, tier string) *RunResult {
	if p.Run != nil {
		return p.Run(t, seed, tier)
	}
	return p.defaultRun(t, seed, tier)
}

func (p *Profile) replay(t *testing.T, plan Plan, keepTrace bool) *RunResult {
	if p.Replay != nil {
		return p.Replay(t, plan, keepTrace)
	}
	return p.defaultReplay(t, plan, keepTrace)
}

func init() {
	register(&Profile{
		ID: "C04",
		Config: func(r *Rng, tier string) Config {
			c := baseConfig(r)
			c.ensureModules("lock")
			c.dropModules("oauth2", "recover")
			c.dropSetups("expire")
			c.RecoverLogin = false
			c.EmailAuth2FA = false
			// windows/durations small enough that histories cross them often
			c.LockWindow = []time.Duration{3 * time.Second, 20 * time.Second, time.Minute, 5 * time.Minute, time.Hour}[r.Intn(5)]
			c.LockDuration = []time.Duration{5 * time.Second, time.Minute, 30 * time.Minute, 12 * time.Hour}[r.Intn(4)]
			for i := range c.Accounts {
				c.Accounts[i].Confirmed = true
			}
			return c
		},
		Gen: func(r *Rng, tier string) *genProfile {
			return &genProfile{
				MaxSteps: steps(tier, 30, 80), Default: 0, FollowUp: 60, Template: 45,
				Templates: []string{"fail_burst", "fail_burst", "lock_then_wait", "op_lock_cycle", "twofa_fail", "login_ok"},
				Weights: map[string]int{
					"login": 30, "otp_login": 10, "advance": 12, "op_lock": 3, "op_unlock": 5, "logout": 4,
					"totp_validate": 4, "sms_validate": 4, "otp_add": 2, "register": 1,
				},
				BadSecret: 45, ThreshGaps: 35, SmallGaps: 30,
				Thresholds: func(c *Config) []time.Duration { return []time.Duration{c.LockWindow, c.LockDuration} },
			}
		},
		Oracle: newC04Oracle,
		Nontrivial: func(s *Stats) bool {
			return s.Reach["c04_lock_triggered"] > 0 || s.Reach["c04_login_completed"] > 0
		},
		RequiredReach: []string{"c04_lock_triggered", "c04_login_completed", "c04_locked_login_refused", "c04_failure_login"},
	})
}
