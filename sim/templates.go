package sim

import (
	"fmt"
	"strings"
	"time"
)

// template expands a named multi-step scenario with random parameters. The
// returned steps are queued and executed in order (other browsers do not
// interleave inside a template; interleaving comes from atomic steps between
// templates and from templates that name several browsers themselves).
func (g *commonGen) template(w *World, name string, b int) []Step {
	c := &w.Cfg
	a := g.pickAcct(w, b)
	if a < 0 {
		a = 0
	}
	pw := func(acct int) *SecretRef { return &SecretRef{Kind: "password", A: acct} }
	wrong := func() *SecretRef { return &SecretRef{Kind: "literal", Lit: fmt.Sprintf("Wr0ng-pass!%d", g.r.Intn(50))} }
	switch name {
	case "login_ok":
		return []Step{{Kind: "login", B: b, A: a, Sec: pw(a), RM: c.hasModule("remember") && g.r.Bool()}}
	case "pw_near_miss":
		// strings that differ from the right password at its very end (the
		// longest password of the deployment is the interesting one)
		for i := range w.Accts {
			if len(w.KB.Password[i]) > len(w.KB.Password[a]) {
				a = i
			}
		}
		muts := []string{"suffix:x", "suffix:é", "suffix: ", "chop:1", "suffix:\x00", "upper"}
		out := []Step{{Kind: "drop_session", B: b}}
		for i := 0; i < 1+g.r.Intn(2); i++ {
			out = append(out, Step{Kind: "login", B: b, A: a, Sec: &SecretRef{Kind: "password", A: a, Mut: muts[g.r.Intn(len(muts))]}})
		}
		return append(out, Step{Kind: "login", B: b, A: a, Sec: pw(a)})
	case "fail_burst":
		// a burst of failures on one path, gaps on either side of the window
		n := 1 + g.r.Intn(c.LockAfter+2)
		var out []Step
		for i := 0; i < n; i++ {
			st := Step{Kind: "login", B: b, A: a, Sec: wrong()}
			if c.hasModule("otp") && g.r.Chance(1, 4) {
				st.Kind = "otp_login"
			}
			if i > 0 {
				if g.r.Chance(1, 3) {
					st.Gap = durationsAround(g.r, c.LockWindow)
				} else {
					st.Gap = g.r.Dur(0, c.LockWindow/time.Duration(n+1))
				}
				if c.WholeSecondClock {
					st.Gap = st.Gap.Round(time.Second)
				}
			}
			out = append(out, st)
		}
		if g.r.Bool() {
			out = append(out, Step{Kind: "login", B: b, A: a, Sec: pw(a), Gap: g.afterLockGap(c)})
		}
		return out
	case "lock_then_wait":
		var out []Step
		for i := 0; i < c.LockAfter; i++ {
			out = append(out, Step{Kind: "login", B: b, A: a, Sec: wrong()})
		}
		out = append(out, Step{Kind: "login", B: b, A: a, Sec: pw(a), Gap: g.afterLockGap(c)})
		return out
	case "op_lock_cycle":
		out := []Step{{Kind: "op_lock", B: b, A: a}, {Kind: "login", B: b, A: a, Sec: pw(a), Gap: g.afterLockGap(c)}}
		if g.r.Bool() {
			out = append(out, Step{Kind: "op_unlock", B: b, A: a}, Step{Kind: "login", B: b, A: a, Sec: wrong()}, Step{Kind: "login", B: b, A: a, Sec: pw(a)})
		}
		return out
	case "remember_cycle":
		// log in with rm, lose the session, come back with the cookie, replay the old cookie
		out := []Step{{Kind: "login", B: b, A: a, Sec: pw(a), RM: true}, {Kind: "drop_session", B: b}, g.fill(w, "probe", b)}
		switch g.r.Intn(4) {
		case 0: // stale copy presented again from the same browser
			out = append(out, Step{Kind: "drop_session", B: b}, Step{Kind: "stale_cookie", B: b, Str: map[string]string{"from": fmt.Sprint(b), "idx": "-2"}}, g.fill(w, "probe", b))
		case 1: // theft: another browser presents the current cookie first
			ob := (b + 1) % len(w.Browsers)
			out = append(out, Step{Kind: "copy_cookie", B: ob, Str: map[string]string{"from": fmt.Sprint(b)}}, Step{Kind: "drop_session", B: ob}, g.fill(w, "probe", ob),
				Step{Kind: "drop_session", B: b}, g.fill(w, "probe", b))
		case 2:
			out = append(out, Step{Kind: "logout", B: b}, g.fill(w, "probe", b))
		}
		return out
	case "recover_flow":
		out := []Step{{Kind: "recover_start", B: b, A: a}}
		if g.r.Chance(1, 4) {
			out = append(out, Step{Kind: "recover_start", B: b, A: a}) // supersedes the first
		}
		st := Step{Kind: "recover_end", B: b, A: a, Sec: g.secretFor(w, "recover_end", a, b), Sec2: g.newPasswordFor(a)}
		if g.r.Chance(1, 3) {
			st.Gap = durationsAround(g.r, c.RecoverDur)
			if st.Gap < 0 {
				st.Gap = 0
			}
			if c.WholeSecondClock {
				st.Gap = st.Gap.Round(time.Second)
			}
		}
		out = append(out, st)
		if g.r.Bool() {
			out = append(out, Step{Kind: "login", B: b, A: a, Sec: pw(a)})
		}
		if g.r.Chance(1, 3) {
			out = append(out, Step{Kind: "login", B: b, A: a, Sec: &SecretRef{Kind: "oldpassword", A: a, Idx: -1}})
		}
		if g.r.Chance(1, 3) { // use the same link again
			out = append(out, Step{Kind: "recover_end", B: b, A: a, Sec: &SecretRef{Kind: "recover", A: a, Idx: -1}, Sec2: g.newPasswordFor(a)})
		}
		return out
	case "recover_late_after_get":
		// the mailed link is opened (GET) shortly before it runs out, the
		// form is submitted after it has run out
		D := c.RecoverDur
		early := g.r.Dur(0, D/2)
		if early > 9*time.Minute {
			early = g.r.Dur(0, 9*time.Minute)
		}
		open := D - early - time.Second
		if open < 0 {
			open = 0
		}
		late := early + 2*time.Second + g.r.Dur(0, 5*time.Second)
		if c.WholeSecondClock {
			open, late = open.Round(time.Second), late.Round(time.Second)+time.Second
		}
		tok := &SecretRef{Kind: "recover", A: a, Idx: -1}
		out := []Step{{Kind: "recover_start", B: b, A: a}, {Kind: "recover_end_get", B: b, A: a, Sec: tok, Gap: open}}
		if g.r.Bool() {
			out = append(out, Step{Kind: "recover_end_get", B: b, A: a, Sec: tok})
		}
		return append(out, Step{Kind: "recover_end", B: b, A: a, Sec: tok, Sec2: g.newPasswordFor(a), Gap: late})
	case "register_flow":
		st := g.fill(w, "register", b)
		out := []Step{st}
		if c.hasModule("confirm") {
			out = append(out, Step{Kind: "confirm", B: b, A: st.A, Sec: g.secretFor(w, "confirm", st.A, b)})
		}
		out = append(out, Step{Kind: "login", B: b, A: st.A, Sec: pw(st.A)})
		return out
	case "oauth_flow":
		s1 := g.fill(w, "oauth2_start", b)
		s2 := g.fill(w, "oauth2_callback", b)
		s2.Str["provider"] = s1.Str["provider"]
		out := []Step{s1, s2}
		if g.r.Chance(1, 4) {
			// the provider does not answer the token request; the callback comes again
			out[1].Fault = &FaultDirective{Site: "idp.token", Index: 0, Kind: "err"}
			out = append(out, Step{Kind: "replay", B: b})
		}
		if g.r.Chance(1, 3) {
			out = append(out, Step{Kind: "replay", B: b})
		}
		return out
	case "otp_flow":
		out := []Step{{Kind: "login", B: b, A: a, Sec: pw(a)}, {Kind: "otp_add", B: b, A: a}, {Kind: "logout", B: b},
			{Kind: "otp_login", B: b, A: a, Sec: &SecretRef{Kind: "otp", A: a, Idx: -1}}}
		if g.r.Bool() {
			out = append(out, Step{Kind: "logout", B: b}, Step{Kind: "otp_login", B: b, A: a, Sec: &SecretRef{Kind: "otp", A: a, Idx: -1}})
		}
		if g.r.Bool() {
			// use one that is not the newest, then present it again from another browser
			k := g.r.Intn(3)
			ob := (b + 1) % len(w.Browsers)
			out = append(out, Step{Kind: "otp_add", B: b, A: a}, Step{Kind: "otp_add", B: b, A: a}, Step{Kind: "logout", B: b},
				Step{Kind: "otp_login", B: b, A: a, Sec: &SecretRef{Kind: "otp", A: a, Idx: k}},
				Step{Kind: "otp_login", B: ob, A: a, Sec: &SecretRef{Kind: "otp", A: a, Idx: k}})
		}
		return out
	case "otp_fill":
		// log in and add one-time passwords up to and beyond the limit
		out := []Step{{Kind: "login", B: b, A: a, Sec: pw(a)}}
		for i := 0; i < 4+g.r.Intn(4); i++ {
			out = append(out, Step{Kind: "otp_add", B: b, A: a})
		}
		return out
	case "oauth_remember":
		prov := c.Providers[g.r.Intn(len(c.Providers))]
		uid := []string{"", "a;;b", "x;y", "7"}[g.r.Intn(4)]
		cb := Step{Kind: "oauth2_callback", B: b, A: g.r.Intn(3), Str: map[string]string{"provider": prov, "code": "fresh"}}
		if uid != "" {
			cb.Str["uid"] = uid
		}
		cb.Sec = &SecretRef{Kind: "state", A: -1, Idx: -1}
		return []Step{{Kind: "oauth2_start", B: b, RM: true, Str: map[string]string{"provider": prov}}, cb, {Kind: "drop_session", B: b}, g.fill(w, "probe", b),
			{Kind: "drop_session", B: b}, g.fill(w, "probe", b)}
	case "remember_then_reset":
		ob := (b + 1) % len(w.Browsers)
		out := []Step{{Kind: "login", B: b, A: a, Sec: pw(a), RM: true}, {Kind: "login", B: ob, A: a, Sec: pw(a), RM: true}}
		if g.r.Bool() && c.hasModule("recover") {
			out = append(out, Step{Kind: "recover_start", B: b, A: a}, Step{Kind: "recover_end", B: b, A: a, Sec: &SecretRef{Kind: "recover", A: a, Idx: -1}, Sec2: g.newPasswordFor(a)})
		} else {
			up := Step{Kind: "op_update_password", B: b, A: a, Sec: g.newPasswordFor(a)}
			if g.r.Bool() {
				up.Str = map[string]string{"via": "admin"}
			}
			out = append(out, up)
		}
		out = append(out, Step{Kind: "drop_session", B: ob}, g.fill(w, "probe", ob), Step{Kind: "drop_session", B: b}, g.fill(w, "probe", b),
			Step{Kind: "login", B: ob, A: a, Sec: &SecretRef{Kind: "oldpassword", A: a, Idx: -1}}, Step{Kind: "login", B: ob, A: a, Sec: pw(a)})
		return out
	case "reset_revocation_fails":
		// another browser holds a remember cookie; the password is changed by
		// recovery while the token store cannot be reached
		if !c.hasModule("recover") {
			return nil
		}
		ob := (b + 1) % len(w.Browsers)
		end := Step{Kind: "recover_end", B: b, A: a, Sec: &SecretRef{Kind: "recover", A: a, Idx: -1}, Sec2: g.newPasswordFor(a),
			Fault: &FaultDirective{Site: "db.DelRememberTokens", Index: 0, Kind: "err"}}
		return []Step{{Kind: "login", B: ob, A: a, Sec: pw(a), RM: true}, {Kind: "recover_start", B: b, A: a}, end,
			{Kind: "drop_session", B: ob}, g.fill(w, "probe", ob), {Kind: "login", B: ob, A: a, Sec: &SecretRef{Kind: "oldpassword", A: a, Idx: -1}}, {Kind: "login", B: ob, A: a, Sec: pw(a)}}
	case "callback_exchange_fails":
		// the provider cannot be reached when the code is exchanged; the same
		// callback URL is then delivered again
		s1 := g.fill(w, "oauth2_start", b)
		s2 := g.fill(w, "oauth2_callback", b)
		s2.Str["provider"] = s1.Str["provider"]
		s2.Sec = &SecretRef{Kind: "state", A: -1, Idx: -1}
		s2.Str["code"] = "fresh"
		delete(s2.Str, "error")
		s2.Fault = &FaultDirective{Site: []string{"idp.token", "idp.token", "idp.token", "idp.userinfo", "db.SaveOAuth2", "db.NewFromOAuth2"}[g.r.Intn(6)], Index: 0, Kind: "err"}
		return []Step{s1, s2, {Kind: "replay", B: b}, g.fill(w, "probe", b)}
	case "rotated_then_reset":
		// the cookie is used (and exchanged) moments before the password
		// changes; a copy of the used-up cookie turns up right afterwards
		ob := (b + 1) % len(w.Browsers)
		out := []Step{{Kind: "login", B: b, A: a, Sec: pw(a), RM: true}, {Kind: "drop_session", B: b}, g.fill(w, "probe", b)}
		if g.r.Bool() && c.hasModule("recover") {
			out = append(out, Step{Kind: "recover_start", B: b, A: a}, Step{Kind: "recover_end", B: b, A: a, Sec: &SecretRef{Kind: "recover", A: a, Idx: -1}, Sec2: g.newPasswordFor(a)})
		} else {
			out = append(out, Step{Kind: "op_update_password", B: b, A: a, Sec: g.newPasswordFor(a)})
		}
		pr := g.fill(w, "probe", ob)
		pr.Gap = g.r.Dur(0, 20*time.Second)
		out = append(out, Step{Kind: "stale_cookie", B: ob, Str: map[string]string{"from": fmt.Sprint(b), "idx": "-2"}}, Step{Kind: "drop_session", B: ob}, pr,
			Step{Kind: "login", B: ob, A: a, Sec: pw(a)})
		return out
	case "op_reset":
		return []Step{{Kind: "op_update_password", B: b, A: a, Sec: g.newPasswordFor(a)}, {Kind: "login", B: b, A: a, Sec: &SecretRef{Kind: "oldpassword", A: a, Idx: -1}},
			{Kind: "login", B: b, A: a, Sec: pw(a)}}
	case "confirm_flow":
		out := []Step{{Kind: "op_start_confirm", B: b, A: a}}
		if g.r.Chance(1, 3) {
			out = append(out, Step{Kind: "op_start_confirm", B: b, A: a})
		}
		out = append(out, Step{Kind: "confirm", B: b, A: a, Sec: g.secretFor(w, "confirm", a, b)})
		if g.r.Bool() {
			out = append(out, Step{Kind: "confirm", B: b, A: a, Sec: &SecretRef{Kind: "confirm", A: a, Idx: -1}})
		}
		return out
	case "token_flip_sweep":
		// systematic part of the near-miss space: 64 consecutive single-bit flips
		// of the 512 token bits (the block is chosen by the run) and every
		// decoded length around the genuine one, then the genuine token
		kind, issue, use := "recover", "recover_start", "recover_end"
		if g.r.Bool() {
			kind, issue, use = "confirm", "op_start_confirm", "confirm"
		}
		out := []Step{{Kind: issue, B: b, A: a}}
		block := g.r.Intn(8)
		for i := 0; i < 64; i++ {
			st := Step{Kind: use, B: b, A: a, Sec: &SecretRef{Kind: kind, A: a, Idx: -1, Mut: fmt.Sprintf("flipbit:%d", block*64+i)}}
			if use == "recover_end" {
				st.Sec2 = &SecretRef{Kind: "literal", Lit: "Fresh-Pass9!sweep"}
			}
			out = append(out, st)
		}
		for _, n := range []int{0, 1, 31, 32, 33, 63} {
			st := Step{Kind: use, B: b, A: a, Sec: &SecretRef{Kind: kind, A: a, Idx: -1, Mut: fmt.Sprintf("trunc:%d", n)}}
			if use == "recover_end" {
				st.Sec2 = &SecretRef{Kind: "literal", Lit: "Fresh-Pass9!sweep"}
			}
			out = append(out, st)
		}
		for n := 0; n < 6; n++ {
			st := Step{Kind: use, B: b, A: a, Sec: &SecretRef{Kind: kind, A: a, Idx: -1, Mut: fmt.Sprintf("extend:%d", n)}}
			if use == "recover_end" {
				st.Sec2 = &SecretRef{Kind: "literal", Lit: "Fresh-Pass9!sweep"}
			}
			out = append(out, st)
		}
		gen := Step{Kind: use, B: b, A: a, Sec: &SecretRef{Kind: kind, A: a, Idx: -1}}
		if use == "recover_end" {
			gen.Sec2 = &SecretRef{Kind: "literal", Lit: "Fresh-Pass9!sweep"}
		}
		w.Stats.Reach[fmt.Sprintf("c05_flip_block_%d", block)]++
		return append(out, gen)
	case "token_near_miss":
		// issue a token, submit several near misses, then the genuine one
		kind, issue, use := "recover", "recover_start", "recover_end"
		if g.r.Bool() {
			kind, issue, use = "confirm", "op_start_confirm", "confirm"
		}
		out := []Step{{Kind: issue, B: b, A: a}}
		n := 2 + g.r.Intn(5)
		oa := g.otherAcct(w, a)
		for i := 0; i < n; i++ {
			muts := []string{fmt.Sprintf("flipbit:%d", g.r.Intn(512)), fmt.Sprintf("trunc:%d", g.r.Intn(64)), fmt.Sprintf("trunc:%d", 60+g.r.Intn(4)), fmt.Sprintf("extend:%d", g.r.Intn(6)),
				fmt.Sprintf("splice:%d", oa), fmt.Sprintf("splice2:%d", oa), "suffix:.", "suffix:,", "prefix: ", "upper", "stdalpha"}
			st := Step{Kind: use, B: b, A: a, Sec: &SecretRef{Kind: kind, A: a, Idx: -1, Mut: muts[g.r.Intn(len(muts))]}}
			if g.r.Chance(1, 5) {
				st.Sec = &SecretRef{Kind: "stored", A: a, Lit: kind + []string{"_selector", "_verifier"}[g.r.Intn(2)]}
			}
			if use == "recover_end" {
				st.Sec2 = g.newPassword()
			}
			out = append(out, st)
		}
		gen := Step{Kind: use, B: b, A: a, Sec: &SecretRef{Kind: kind, A: a, Idx: -1}}
		if g.r.Chance(1, 4) {
			gen.Sec.Mut = []string{"nopad", "crlf"}[g.r.Intn(2)]
		}
		if use == "recover_end" {
			gen.Sec2 = &SecretRef{Kind: "literal", Lit: fmt.Sprintf("Fresh-Pass9!%d", g.r.Intn(100))}
		}
		out = append(out, gen)
		return out
	case "adversary_sms":
		// the adversary knows the victim's password, owns account `a` with his
		// own phone, and interleaves two primary logins in one browser
		v := g.otherAcct(w, a)
		gap := g.r.Dur(0, 9*time.Second)
		if g.r.Chance(1, 3) {
			gap = g.r.Dur(10*time.Second, 40*time.Second)
		}
		if c.WholeSecondClock {
			gap = gap.Round(time.Second)
		}
		out := []Step{{Kind: "login", B: b, A: a, Sec: pw(a)}, {Kind: "login", B: b, A: v, Sec: pw(v), Gap: gap}}
		code := &SecretRef{Kind: "sms", A: -1, Idx: -1 - g.r.Intn(2)}
		out = append(out, Step{Kind: "sms_validate", B: b, A: v, Sec: code})
		if g.r.Bool() {
			out = append(out, Step{Kind: "totp_validate", B: b, A: v, Sec: &SecretRef{Kind: "totp", A: a}})
		}
		return out
	case "sms_send_fails":
		// the adversary passes his own password step (code to his phone), waits
		// out the resend window, passes the victim's password step while the
		// SMS gateway fails, then presents his own code
		var withSMS []int
		for i := range w.Accts {
			if w.KB.SMSNumber[i] != "" {
				withSMS = append(withSMS, i)
			}
		}
		if len(withSMS) < 2 {
			return nil
		}
		p := g.r.Perm(len(withSMS))
		adv, v := withSMS[p[0]], withSMS[p[1]]
		gap := 10*time.Second + g.r.Dur(0, 20*time.Second)
		if g.r.Chance(1, 4) {
			gap = g.r.Dur(0, 9*time.Second)
		}
		if c.WholeSecondClock {
			gap = gap.Round(time.Second)
		}
		return []Step{{Kind: "drop_session", B: b}, {Kind: "login", B: b, A: adv, Sec: pw(adv)},
			{Kind: "login", B: b, A: v, Sec: pw(v), Gap: gap, Fault: &FaultDirective{Site: "sms.send", Index: 0, Kind: "err"}},
			// (the harness sees every code, also the one the failed send never delivered: -2 is the adversary's)
			{Kind: "sms_validate", B: b, A: v, Sec: &SecretRef{Kind: "sms", A: -1, Idx: -2}},
			{Kind: "sms_validate", B: b, A: v, Sec: &SecretRef{Kind: "sms", A: -1, Idx: -1}}}
	case "adversary_codes":
		// victim's password, then every code the adversary can get hold of
		v := g.otherAcct(w, a)
		out := []Step{{Kind: "login", B: b, A: v, Sec: pw(v)}}
		if c.hasModule("otp") && g.r.Chance(1, 4) {
			out[0] = Step{Kind: "otp_login", B: b, A: v, Sec: &SecretRef{Kind: "otp", A: v, Idx: -1}}
		}
		for i := 0; i < 1+g.r.Intn(3); i++ {
			kind := "totp_validate"
			if c.hasSetup("sms") && (!c.hasSetup("totp") || g.r.Bool()) {
				kind = "sms_validate"
			}
			var sec *SecretRef
			var str map[string]string
			switch g.r.Intn(6) {
			case 0:
				sec = &SecretRef{Kind: "totp", A: a}
			case 1:
				sec = &SecretRef{Kind: "recovery", A: a, Idx: -1}
			case 2:
				sec = &SecretRef{Kind: "sms", A: -1, Idx: -1 - g.r.Intn(3)}
			case 3:
				sec = &SecretRef{Kind: "totp", A: v, Idx: -2 - g.r.Intn(100)}
			case 4:
				sec = &SecretRef{Kind: "empty"}
			default:
				sec, str = g.codeFor(w, kind, v, b)
			}
			out = append(out, Step{Kind: kind, B: b, A: v, Sec: sec, Str: str})
		}
		return out
	case "gate_between_steps":
		// the operator locks / re-starts confirmation between the two steps of a login
		out := []Step{{Kind: "login", B: b, A: a, Sec: pw(a)}}
		ops := []string{}
		if c.hasModule("lock") {
			ops = append(ops, "op_lock")
		}
		if c.hasModule("confirm") {
			ops = append(ops, "op_start_confirm")
		}
		if len(ops) > 0 {
			out = append(out, Step{Kind: ops[g.r.Intn(len(ops))], B: b, A: a})
		}
		if c.hasSetup("totp") {
			out = append(out, Step{Kind: "totp_validate", B: b, A: a, Sec: &SecretRef{Kind: "totp", A: a}})
		}
		if c.hasSetup("sms") {
			out = append(out, Step{Kind: "sms_validate", B: b, A: a, Sec: &SecretRef{Kind: "sms", A: -1, Idx: -1}})
		}
		return out
	case "gated_paths":
		// lock or un-confirm an account, then try every login path with good credentials
		out := []Step{}
		if c.hasModule("lock") && (g.r.Bool() || !c.hasModule("confirm")) {
			out = append(out, Step{Kind: "op_lock", B: b, A: a})
		} else if c.hasModule("confirm") {
			out = append(out, Step{Kind: "op_start_confirm", B: b, A: a})
		}
		out = append(out, Step{Kind: "login", B: b, A: a, Sec: pw(a)})
		if c.hasModule("otp") {
			out = append(out, Step{Kind: "otp_login", B: b, A: a, Sec: &SecretRef{Kind: "otp", A: a, Idx: -1}})
		}
		if c.hasModule("recover") {
			out = append(out, Step{Kind: "recover_start", B: b, A: a}, Step{Kind: "recover_end", B: b, A: a, Sec: &SecretRef{Kind: "recover", A: a, Idx: -1}, Sec2: &SecretRef{Kind: "literal", Lit: "G00d-enough!pw"}})
		}
		out = append(out, g.fill(w, "probe", b))
		if g.r.Chance(1, 3) {
			// the store hiccups at one of the first calls of a login of the gated account
			for i := range out {
				if out[i].Kind == "login" || out[i].Kind == "otp_login" || out[i].Kind == "recover_end" {
					out[i].Fault = &FaultDirective{Site: []string{"db.Save", "db.Save", "db.Load"}[g.r.Intn(3)], Index: g.r.Intn(2), Kind: "err"}
					if g.r.Bool() {
						break
					}
				}
			}
		}
		return out
	case "regate_while_logged_in":
		// a logged-in session passes the guard, the operator then locks the
		// account / re-starts its confirmation, the same session comes back
		guard := []string{"/probe/lock", "/nok/lock"}[g.r.Intn(2)]
		op := "op_lock"
		if c.hasModule("confirm") && (g.r.Bool() || !c.hasModule("lock")) {
			guard, op = []string{"/probe/confirm", "/nok/confirm"}[g.r.Intn(2)], "op_start_confirm"
		}
		if !c.hasModule("lock") && !c.hasModule("confirm") {
			return nil
		}
		// an account that currently passes the gate and has no second factor
		for i := range w.Accts {
			row := w.DB.rows[w.Accts[i].PID]
			if row != nil && row.Confirmed && !row.Locked.After(time.Now()) && w.KB.TOTPSecret[i] == "" && w.KB.SMSNumber[i] == "" {
				a = i
			}
		}
		pr := func() Step { return Step{Kind: "probe", B: b, Str: map[string]string{"path": guard}} }
		out := []Step{{Kind: "drop_session", B: b}, {Kind: "login", B: b, A: a, Sec: pw(a)}, pr()}
		if g.r.Bool() {
			out = append(out, pr())
		}
		out = append(out, Step{Kind: op, B: b, A: a}, pr())
		if g.r.Chance(1, 3) {
			out = append(out, Step{Kind: "restart", B: b}, pr())
		}
		return out
	case "oauth_gated":
		prov := c.Providers[g.r.Intn(len(c.Providers))]
		n := g.r.Intn(2)
		mk := func() []Step {
			return []Step{{Kind: "oauth2_start", B: b, Str: map[string]string{"provider": prov}},
				{Kind: "oauth2_callback", B: b, A: n, Sec: &SecretRef{Kind: "state", A: -1, Idx: -1}, Str: map[string]string{"provider": prov, "code": "fresh"}}}
		}
		out := mk()
		out = append(out, Step{Kind: "logout", B: b}, Step{Kind: "op_lock", B: b, A: -1, Str: map[string]string{"pid": "oauth2;;" + prov + ";;" + fmt.Sprintf("idp-%d", n)}})
		out = append(out, mk()...)
		out = append(out, Step{Kind: "probe", B: b, Str: map[string]string{"path": "/probe/lock"}})
		return out
	case "enroll_totp", "enroll_sms":
		kind := strings.TrimPrefix(name, "enroll_")
		out := []Step{{Kind: "login", B: b, A: a, Sec: pw(a)}}
		if c.EmailAuth2FA {
			out = append(out, Step{Kind: "everify_start", B: b, A: a, Str: map[string]string{"kind": kind}})
			tok := &SecretRef{Kind: "everify", A: a, Idx: -1}
			switch g.r.Intn(6) {
			case 0:
				tok = &SecretRef{Kind: "empty"}
			case 1:
				tok = &SecretRef{Kind: "everify", A: g.otherAcct(w, a), Idx: -1}
			}
			out = append(out, Step{Kind: "everify_end", B: b, A: a, Sec: tok, Str: map[string]string{"kind": kind}})
		}
		if kind == "totp" {
			out = append(out, Step{Kind: "totp_setup", B: b, A: a})
			code := &SecretRef{Kind: "totp_pending", A: b}
			if g.r.Chance(1, 4) {
				code = &SecretRef{Kind: "totp", A: g.otherAcct(w, a)}
			}
			out = append(out, Step{Kind: "totp_confirm", B: b, A: a, Sec: code})
		} else {
			num := acctPhone(a)
			if a < len(w.Accts) {
				num = w.Accts[a].Phone
			}
			out = append(out, Step{Kind: "sms_setup", B: b, A: a, Str: map[string]string{"number": num}})
			if g.r.Chance(1, 4) {
				// second setup for another number inside / outside the resend window
				gap := g.r.Dur(0, 15*time.Second)
				if c.WholeSecondClock {
					gap = gap.Round(time.Second)
				}
				out = append(out, Step{Kind: "sms_setup", B: b, A: a, Gap: gap, Str: map[string]string{"number": acctPhone(g.otherAcct(w, a))}})
			}
			out = append(out, Step{Kind: "sms_confirm", B: b, A: a, Sec: &SecretRef{Kind: "sms", A: -1, Idx: -1 - g.r.Intn(2)}})
		}
		return out
	case "everify_link_elsewhere":
		// the mailed 2FA authorisation link is opened where no fully authenticated session exists
		kind := "totp"
		if !c.hasSetup("totp") {
			kind = "sms"
		}
		ob := (b + 1) % len(w.Browsers)
		out := []Step{{Kind: "login", B: b, A: a, Sec: pw(a)}, {Kind: "everify_start", B: b, A: a, Str: map[string]string{"kind": kind}}}
		open := Step{Kind: "everify_end", B: ob, A: a, Sec: &SecretRef{Kind: "everify", A: a, Idx: -1}, Str: map[string]string{"kind": kind}}
		if g.r.Bool() {
			out = append(out, Step{Kind: "logout", B: b})
			open.B = b
		}
		return append(out, open)
	case "spent_recovery_remove":
		// finish a login with a recovery code, then try to disable the factor with the same code
		for i := range w.Accts {
			if w.KB.SMSNumber[i] != "" || w.KB.TOTPSecret[i] != "" {
				a = i
			}
		}
		kind := "totp"
		if a < len(w.Accts) && w.KB.TOTPSecret[a] == "" {
			kind = "sms"
		}
		k := g.r.Intn(3)
		return []Step{{Kind: "login", B: b, A: a, Sec: pw(a)},
			{Kind: kind + "_validate", B: b, A: a, Sec: &SecretRef{Kind: "recovery", A: a, Idx: k}},
			{Kind: kind + "_remove", B: b, A: a, Sec: &SecretRef{Kind: "recovery", A: a, Idx: k}}}
	case "everify_probe":
		// try to obtain the e-mail authorisation without the mail
		kind := "totp"
		if !c.hasSetup("totp") {
			kind = "sms"
		}
		out := []Step{{Kind: "login", B: b, A: a, Sec: pw(a)}}
		toks := []*SecretRef{{Kind: "empty"}, g.garbage(), {Kind: "everify", A: g.otherAcct(w, a), Idx: -1}}
		out = append(out, Step{Kind: "everify_end", B: b, A: a, Sec: toks[g.r.Intn(len(toks))], Str: map[string]string{"kind": kind}})
		out = append(out, Step{Kind: kind + "_setup", B: b, A: a, Str: map[string]string{"number": acctPhone(a)}})
		return out
	case "remove_factor":
		out := []Step{{Kind: "login", B: b, A: a, Sec: pw(a)}}
		if a < len(w.Accts) && w.KB.TOTPSecret[a] != "" {
			out = append(out, Step{Kind: "totp_validate", B: b, A: a, Sec: &SecretRef{Kind: "totp", A: a}})
			sec, str := g.codeFor(w, "totp_remove", a, b)
			var gap time.Duration
			switch g.r.Intn(4) {
			case 0:
				// a re-enrolment is started and abandoned: the code of the
				// secret waiting in the session is not a code of the account
				out = append(out, Step{Kind: "totp_setup", B: b, A: a})
				sec, str = &SecretRef{Kind: "totp_pending", A: b}, nil
			case 1:
				// the code of the login again, minutes later: stale by then
				sec, str = &SecretRef{Kind: "totp_again", A: a}, nil
				gap = 2*time.Minute + g.r.Dur(0, time.Hour)
			}
			out = append(out, Step{Kind: "totp_remove", B: b, A: a, Sec: sec, Str: str, Gap: gap})
		} else if a < len(w.Accts) && w.KB.SMSNumber[a] != "" {
			out = append(out, Step{Kind: "sms_validate", B: b, A: a, Sec: &SecretRef{Kind: "sms", A: -1, Idx: -1}},
				Step{Kind: "sms_remove", B: b, A: a, Sec: &SecretRef{Kind: "empty"}, Gap: 11 * time.Second},
				Step{Kind: "sms_remove", B: b, A: a, Sec: &SecretRef{Kind: "sms", A: -1, Idx: -1}})
		}
		return out
	case "factor_change_between_steps":
		// one browser has passed the password step of a TOTP account; the
		// owner, fully logged in elsewhere, changes the second-factor settings;
		// the first browser then takes its code step
		ta := -1
		for i := range w.Accts {
			if w.KB.TOTPSecret[i] != "" {
				ta = i
			}
		}
		if ta < 0 || len(w.Browsers) < 2 {
			return g.template(w, "enroll_totp", b)
		}
		ob := (b + 1) % len(w.Browsers)
		// (the owner's own login comes first: its steps must not stand between
		// the other browser's password step and code step)
		out := []Step{{Kind: "drop_session", B: b}, {Kind: "drop_session", B: ob},
			{Kind: "login", B: ob, A: ta, Sec: pw(ta)}, {Kind: "totp_validate", B: ob, A: ta, Sec: &SecretRef{Kind: "totp", A: ta}},
			{Kind: "login", B: b, A: ta, Sec: pw(ta)}}
		if c.EmailAuth2FA {
			out = append(out, Step{Kind: "everify_start", B: ob, A: ta, Str: map[string]string{"kind": "totp"}},
				Step{Kind: "everify_end", B: ob, A: ta, Sec: &SecretRef{Kind: "everify", A: ta, Idx: -1}, Str: map[string]string{"kind": "totp"}})
		}
		if c.hasSetup("recovery") && g.r.Chance(2, 3) {
			out = append(out, Step{Kind: "recovery_regen", B: ob, A: ta})
		} else {
			out = append(out, Step{Kind: "totp_remove", B: ob, A: ta, Sec: &SecretRef{Kind: "totp", A: ta}, Gap: 30 * time.Second},
				Step{Kind: "totp_setup", B: ob, A: ta}, Step{Kind: "totp_confirm", B: ob, A: ta, Sec: &SecretRef{Kind: "totp_pending", A: ob}})
		}
		code := &SecretRef{Kind: "totp", A: ta}
		if g.r.Bool() {
			code = &SecretRef{Kind: "recovery", A: ta, Idx: g.r.Intn(3)}
		}
		out = append(out, Step{Kind: "totp_validate", B: b, A: ta, Sec: code, Gap: []time.Duration{30 * time.Second, 45 * time.Second, 61 * time.Second}[g.r.Intn(3)]})
		return out
	case "halfauth_settings":
		// a cookie-authenticated (half-auth) session tries to change 2FA settings
		out := []Step{{Kind: "login", B: b, A: a, Sec: pw(a), RM: true}}
		// A cookie is only issued by the password step (the code step carries
		// no remember-me value): an account has cookie and second factor when
		// it enrolled after the cookie was issued
		if c.hasSetup("totp") && !c.EmailAuth2FA && a >= 0 && a < len(w.KB.TOTPSecret) && w.KB.TOTPSecret[a] == "" && w.KB.SMSNumber[a] == "" && g.r.Bool() {
			out = append(out, Step{Kind: "totp_setup", B: b, A: a}, Step{Kind: "totp_confirm", B: b, A: a, Sec: &SecretRef{Kind: "totp_pending", A: b}})
		}
		out = append(out, Step{Kind: "drop_session", B: b})
		if g.r.Bool() {
			// otherwise the very first request the cookie authenticates is the sensitive one
			out = append(out, g.fill(w, "probe", b))
		}
		if g.r.Chance(1, 2) {
			// the password again (for an account with a second factor this only parks a login)
			out = append(out, Step{Kind: "login", B: b, A: a, Sec: pw(a)})
		}
		for _, k := range []string{"totp_setup", "recovery_regen", "totp_remove", "sms_remove", "sms_setup"} {
			if g.r.Bool() {
				st := g.fill(w, k, b)
				st.A = a
				out = append(out, st)
			}
		}
		return out
	case "mangled_then_idle":
		// the session store damages the activity stamp; the session then idles out
		for i := range w.Accts {
			if w.KB.TOTPSecret[i] == "" && w.KB.SMSNumber[i] == "" {
				a = i
			}
		}
		how := []string{"truncate", "empty", "unix", "garbage"}[g.r.Intn(4)]
		E := c.ExpireAfter
		return []Step{{Kind: "drop_session", B: b}, {Kind: "login", B: b, A: a, Sec: pw(a)},
			{Kind: "probe", B: b, Gap: g.r.Dur(0, E/2), Str: map[string]string{"path": "/probe/open"}},
			{Kind: "mangle_stamp", B: b, Str: map[string]string{"how": how}},
			{Kind: "probe", B: b, Gap: E + g.r.Dur(time.Second, E), Str: map[string]string{"path": "/probe/open"}},
			{Kind: "probe", B: b, Gap: g.r.Dur(0, E/2), Str: map[string]string{"path": "/probe/open"}}}
	case "cookie_then_idle":
		// a session a remember cookie established (half-authenticated) idles out like any other
		if !c.ExpireWithRemember {
			return g.template(w, "idle_probe", b)
		}
		for i := range w.Accts {
			if w.KB.TOTPSecret[i] == "" && w.KB.SMSNumber[i] == "" {
				a = i
			}
		}
		E := c.ExpireAfter
		pr := func(gap time.Duration) Step {
			return Step{Kind: "probe", B: b, Gap: gap, Str: map[string]string{"path": "/probe/open"}}
		}
		return []Step{{Kind: "drop_session", B: b}, {Kind: "login", B: b, A: a, Sec: pw(a), RM: true}, {Kind: "drop_session", B: b},
			pr(0), pr(0), pr(E / 2), pr(E + time.Second + g.r.Dur(0, E)), pr(0), pr(0)}
	case "upgrade_to_expire":
		// sessions established before the expire module was deployed carry no
		// activity stamp; the deployment is the first restart
		if !c.ExpireLate || w.expireOn {
			return g.template(w, "idle_probe", b)
		}
		for i := range w.Accts {
			if w.KB.TOTPSecret[i] == "" && w.KB.SMSNumber[i] == "" {
				a = i
			}
		}
		pr := func(gap time.Duration) Step {
			return Step{Kind: "probe", B: b, Gap: gap, Str: map[string]string{"path": "/probe/open"}}
		}
		E := c.ExpireAfter
		return []Step{{Kind: "drop_session", B: b}, {Kind: "login", B: b, A: a, Sec: pw(a)}, pr(0), {Kind: "restart", B: b, Gap: g.r.Dur(0, 2*E)},
			pr(0), pr(E / 2), pr(E + time.Second + g.r.Dur(0, E)), pr(0)}
	case "relogin_after_idle":
		// log in, stay idle around / beyond the threshold, log in again in the same browser
		gap := durationsAround(g.r, c.ExpireAfter)
		if g.r.Bool() {
			gap = c.ExpireAfter + g.r.Dur(time.Second, c.ExpireAfter)
		}
		if gap < 0 {
			gap = 0
		}
		if c.WholeSecondClock {
			gap = gap.Round(time.Second)
		}
		who := a
		if g.r.Chance(1, 4) {
			who = g.otherAcct(w, a)
		}
		return []Step{{Kind: "login", B: b, A: a, Sec: pw(a)}, {Kind: "login", B: b, A: who, Sec: pw(who), Gap: gap},
			{Kind: "probe", B: b, Gap: g.r.Dur(0, 2*time.Second).Round(time.Second), Str: map[string]string{"path": "/probe/open"}}}
	case "oauth_stale_params":
		// an abandoned start that asked to be remembered, then a plain start and its callback
		prov := c.Providers[g.r.Intn(len(c.Providers))]
		return []Step{{Kind: "oauth2_start", B: b, RM: true, Str: map[string]string{"provider": prov}},
			{Kind: "oauth2_start", B: b, Str: map[string]string{"provider": prov}},
			{Kind: "oauth2_callback", B: b, A: g.r.Intn(3), Sec: &SecretRef{Kind: "state", A: -1, Idx: -1}, Str: map[string]string{"provider": prov, "code": "fresh"}},
			{Kind: "drop_session", B: b}, g.fill(w, "probe", b)}
	case "cookie_at_validate":
		// a pending 2FA login of one account in the browser, then another account's cookie arrives with the validate request
		v := g.otherAcct(w, a)
		ob := (b + 1) % len(w.Browsers)
		out := []Step{{Kind: "login", B: ob, A: v, Sec: pw(v), RM: true}, {Kind: "login", B: b, A: a, Sec: pw(a)},
			{Kind: "copy_cookie", B: b, Str: map[string]string{"from": fmt.Sprint(ob)}}}
		if c.hasSetup("sms") && (g.r.Bool() || !c.hasSetup("totp")) {
			out = append(out, Step{Kind: "sms_validate", B: b, A: a, Sec: &SecretRef{Kind: "sms", A: -1, Idx: -1}})
		} else {
			out = append(out, Step{Kind: "totp_validate", B: b, A: a, Sec: &SecretRef{Kind: "totp", A: a}})
		}
		return out
	case "cookie_rotation_fails":
		// the store fails between consuming the presented token and saving its replacement
		site := []string{"db.AddRememberToken", "db.UseRememberToken"}[g.r.Intn(2)]
		return []Step{{Kind: "drop_session", B: b}, {Kind: "login", B: b, A: a, Sec: pw(a), RM: true}, {Kind: "drop_session", B: b},
			{Kind: "probe", B: b, Str: map[string]string{"path": "/probe/open"}, Fault: &FaultDirective{Site: site, Index: 0, Kind: "err"}},
			g.fill(w, "probe", b), {Kind: "drop_session", B: b}, g.fill(w, "probe", b)}
	case "forged_cookie":
		// a well-formed cookie naming a real account that was never issued, while the token store misbehaves
		st := g.fill(w, "probe", b)
		if g.r.Bool() {
			st.Fault = &FaultDirective{Site: "db.UseRememberToken", Index: 0, Kind: "err"}
		}
		return []Step{{Kind: "drop_session", B: b}, {Kind: "set_cookie", B: b, Sec: &SecretRef{Kind: "forged_rm", A: a, Idx: g.r.Intn(1000)}}, st}
	case "idle_probe":
		// be logged in, stay idle around the threshold, look at what downstream sees
		out := []Step{}
		if sessAcct(w, b) < 0 {
			out = append(out, Step{Kind: "login", B: b, A: a, Sec: pw(a)})
		}
		if g.r.Bool() {
			out = append(out, Step{Kind: "app_session_put", B: b, Str: map[string]string{"key": appKeys[g.r.Intn(len(appKeys))], "val": "kept"}})
		}
		for i := 0; i < 1+g.r.Intn(3); i++ {
			gap := durationsAround(g.r, c.ExpireAfter)
			if gap < 0 {
				gap = 0
			}
			if c.WholeSecondClock {
				gap = gap.Round(time.Second)
			}
			out = append(out, Step{Kind: "probe", B: b, Gap: gap, Str: map[string]string{"path": "/probe/open"}})
		}
		return out
	case "logout_from_state":
		// reach some session state, log out, then knock on a protected door
		var out []Step
		switch g.r.Intn(8) {
		case 0:
		case 1:
			out = append(out, Step{Kind: "login", B: b, A: a, Sec: pw(a), RM: c.hasModule("remember")})
		case 2:
			if c.hasModule("remember") && !c.hasSetup("expire") {
				out = append(out, Step{Kind: "login", B: b, A: a, Sec: pw(a), RM: true}, Step{Kind: "drop_session", B: b})
				if g.r.Bool() {
					// otherwise the logout itself is the request the cookie authenticates
					out = append(out, g.fill(w, "probe", b))
				}
			}
		case 3:
			if c.hasModule("oauth2") {
				out = append(out, g.fill(w, "oauth2_start", b))
			}
		case 4:
			out = append(out, Step{Kind: "login", B: b, A: a, Sec: pw(a)})
			if c.hasSetup("totp") {
				out = append(out, Step{Kind: "totp_setup", B: b, A: a})
			}
			if c.hasSetup("sms") {
				out = append(out, Step{Kind: "sms_setup", B: b, A: a, Str: map[string]string{"number": acctPhone(a)}})
			}
		case 5:
			out = append(out, Step{Kind: "login", B: b, A: a, Sec: pw(a)})
			if c.EmailAuth2FA && c.hasSetup("totp") {
				out = append(out, Step{Kind: "everify_start", B: b, A: a, Str: map[string]string{"kind": "totp"}})
			}
		case 6:
			// a 2FA account: stop after the password step
			for i := range w.Accts {
				if w.KB.TOTPSecret[i] != "" || w.KB.SMSNumber[i] != "" {
					a = i
				}
			}
			out = append(out, Step{Kind: "login", B: b, A: a, Sec: pw(a)})
		case 7:
			out = append(out, Step{Kind: "login", B: b, A: a, Sec: pw(a)}, Step{Kind: "app_session_put", B: b, Str: map[string]string{"key": "app_theme", "val": "dark"}},
				Step{Kind: "app_session_put", B: b, Str: map[string]string{"key": "app_other", "val": "x"}})
		}
		if g.r.Chance(1, 5) {
			m := logoutMethods[g.r.Intn(len(logoutMethods))]
			out = append(out, Step{Kind: "logout", B: b, Str: map[string]string{"method": m}})
		}
		out = append(out, Step{Kind: "logout", B: b}, Step{Kind: "probe", B: b, Str: map[string]string{"path": "/probe/mw/" + []string{"0", "1"}[g.r.Intn(2)] + "/0/0/after"}})
		return out
	case "oauth_cross":
		// start in one browser, deliver the callback in another (and then in the right one)
		ob := (b + 1) % len(w.Browsers)
		prov := c.Providers[g.r.Intn(len(c.Providers))]
		start := Step{Kind: "oauth2_start", B: b, Str: map[string]string{"provider": prov}}
		cb := func(br int) Step {
			return Step{Kind: "oauth2_callback", B: br, A: g.r.Intn(3), Sec: &SecretRef{Kind: "state", A: -1, Idx: -1}, Str: map[string]string{"provider": prov, "code": "fresh"}}
		}
		out := []Step{start}
		if g.r.Bool() {
			out = append(out, Step{Kind: "oauth2_start", B: ob, Str: map[string]string{"provider": prov}})
		}
		out = append(out, cb(ob), cb(b), Step{Kind: "replay", B: b})
		return out
	case "oauth_provider_mixup":
		// start at one provider; the callback, carrying the genuine state and a
		// code that provider issued, is delivered to another provider's route
		if len(c.Providers) < 2 {
			return nil
		}
		pi := g.r.Intn(len(c.Providers))
		prov, other := c.Providers[pi], c.Providers[(pi+1)%len(c.Providers)]
		n := g.r.Intn(3)
		out := []Step{{Kind: "oauth2_start", B: b, Str: map[string]string{"provider": prov}},
			{Kind: "oauth2_callback", B: b, A: n, Sec: &SecretRef{Kind: "state", A: -1, Idx: -1}, Str: map[string]string{"provider": other, "code": "fresh", "code_provider": prov}}}
		if g.r.Bool() {
			out = append(out, Step{Kind: "oauth2_callback", B: b, A: n, Sec: &SecretRef{Kind: "state", A: -1, Idx: -1}, Str: map[string]string{"provider": prov, "code": "fresh"}})
		}
		return append(out, g.fill(w, "probe", b))
	case "twofa_redir":
		// 2FA login carrying a return target through both steps
		for i := range w.Accts {
			if w.KB.TOTPSecret[i] != "" || w.KB.SMSNumber[i] != "" {
				a = i
			}
		}
		first := Step{Kind: "login", B: b, A: a, Sec: pw(a)}
		g.redir(&first)
		out := []Step{first}
		if a < len(w.Accts) && w.KB.TOTPSecret[a] != "" && c.hasSetup("totp") {
			st := Step{Kind: "totp_validate", B: b, A: a, Sec: &SecretRef{Kind: "totp", A: a}}
			g.redir(&st)
			out = append(out, st)
		} else if c.hasSetup("sms") {
			st := Step{Kind: "sms_validate", B: b, A: a, Sec: &SecretRef{Kind: "sms", A: -1, Idx: -1}}
			g.redir(&st)
			out = append(out, st)
		}
		return out
	case "totp_replay":
		// an accepted TOTP code is presented again within its period: verbatim,
		// wrapped in white space, or after it proved the secret at enrolment
		t := -1
		for i := range w.Accts {
			if w.KB.TOTPSecret[i] != "" && (t < 0 || g.r.Bool()) {
				t = i
			}
		}
		again := &SecretRef{Kind: "totp_again", A: a}
		if g.r.Bool() {
			again.Mut = []string{"suffix: ", "prefix: ", "suffix:\t", "suffix:\n"}[g.r.Intn(4)]
		}
		// the replay arrives at once or later, while the code is still within
		// the verifier's tolerance (the same period, or the next one)
		gap := []time.Duration{0, 0, 9 * time.Second, 29 * time.Second, 31 * time.Second, 45 * time.Second}[g.r.Intn(6)]
		tail := func(a int) []Step {
			out := []Step{{Kind: "drop_session", B: b}, {Kind: "login", B: b, A: a, Sec: pw(a), Gap: gap}}
			if g.r.Chance(1, 3) {
				// a refused submission in between does not make the used code fresh
				out = append(out, Step{Kind: "totp_validate", B: b, A: a, Sec: &SecretRef{Kind: "literal", Lit: fmt.Sprintf("%06d", g.r.Intn(1000000))}})
			}
			return append(out, Step{Kind: "totp_validate", B: b, A: a, Sec: again})
		}
		if t < 0 || g.r.Chance(1, 3) {
			for i := range w.Accts {
				if w.KB.TOTPSecret[i] == "" && w.KB.SMSNumber[i] == "" {
					a = i
				}
			}
			again.A = a
			return append([]Step{{Kind: "drop_session", B: b}, {Kind: "login", B: b, A: a, Sec: pw(a)}, {Kind: "totp_setup", B: b, A: a},
				{Kind: "totp_confirm", B: b, A: a, Sec: &SecretRef{Kind: "totp_pending", A: b}}}, tail(a)...)
		}
		a = t
		again.A = a
		return append([]Step{{Kind: "drop_session", B: b}, {Kind: "login", B: b, A: a, Sec: pw(a)}, {Kind: "totp_validate", B: b, A: a, Sec: &SecretRef{Kind: "totp", A: a}}}, tail(a)...)
	case "second_factor_enrol":
		// an account that already has one factor (and so recovery codes) logs in
		// fully and enrols the other kind, proving it with the right code or
		// with one of its recovery codes
		t := -1
		for i := range w.Accts {
			if (w.KB.TOTPSecret[i] != "") != (w.KB.SMSNumber[i] != "") && (t < 0 || g.r.Bool()) {
				t = i
			}
		}
		if t < 0 {
			return nil
		}
		a = t
		out := []Step{{Kind: "drop_session", B: b}, {Kind: "login", B: b, A: a, Sec: pw(a)}}
		have, want := "totp", "sms"
		if w.KB.TOTPSecret[a] == "" {
			have, want = "sms", "totp"
		}
		if have == "totp" {
			out = append(out, Step{Kind: "totp_validate", B: b, A: a, Sec: &SecretRef{Kind: "totp", A: a}})
		} else {
			out = append(out, Step{Kind: "sms_validate", B: b, A: a, Sec: &SecretRef{Kind: "sms", A: -1, Idx: -1}})
		}
		if c.EmailAuth2FA {
			out = append(out, Step{Kind: "everify_start", B: b, A: a, Str: map[string]string{"kind": want}},
				Step{Kind: "everify_end", B: b, A: a, Sec: &SecretRef{Kind: "everify", A: a, Idx: -1}, Str: map[string]string{"kind": want}})
		}
		proof := &SecretRef{Kind: "recovery", A: a, Idx: -1 - g.r.Intn(3)}
		if want == "sms" {
			out = append(out, Step{Kind: "sms_setup", B: b, A: a, Str: map[string]string{"number": acctPhone(g.otherAcct(w, a))}})
			if g.r.Chance(1, 3) {
				proof = &SecretRef{Kind: "sms", A: -1, Idx: -1}
			}
			out = append(out, Step{Kind: "sms_confirm", B: b, A: a, Sec: proof})
		} else {
			out = append(out, Step{Kind: "totp_setup", B: b, A: a})
			if g.r.Chance(1, 3) {
				proof = &SecretRef{Kind: "totp_pending", A: b}
			}
			out = append(out, Step{Kind: "totp_confirm", B: b, A: a, Sec: proof})
		}
		return out
	case "twofa_then_other_password":
		// a session that passed the second factor of one account presents only
		// the password of another account that has a second factor, then
		// tries that account's 2FA settings
		var with []int
		for i := range w.Accts {
			if w.KB.TOTPSecret[i] != "" || w.KB.SMSNumber[i] != "" {
				with = append(with, i)
			}
		}
		if len(with) < 2 {
			return nil
		}
		p := g.r.Perm(len(with))
		first, second := with[p[0]], with[p[1]]
		out := []Step{{Kind: "drop_session", B: b}, {Kind: "login", B: b, A: first, Sec: pw(first)}}
		if w.KB.TOTPSecret[first] != "" {
			out = append(out, Step{Kind: "totp_validate", B: b, A: first, Sec: &SecretRef{Kind: "totp", A: first}})
		} else {
			out = append(out, Step{Kind: "sms_validate", B: b, A: first, Sec: &SecretRef{Kind: "sms", A: -1, Idx: -1}})
		}
		out = append(out, Step{Kind: "login", B: b, A: second, Sec: pw(second)})
		for _, k := range []string{"recovery_regen", "totp_setup", "sms_setup", "totp_remove", "sms_remove"} {
			if g.r.Chance(1, 2) {
				st := g.fill(w, k, b)
				st.A = second
				out = append(out, st)
			}
		}
		out = append(out, g.fill(w, "probe", b))
		return out
	case "twofa_login":
		// primary credential then the right second factor
		out := []Step{{Kind: "login", B: b, A: a, Sec: pw(a)}}
		return out
	case "twofa_fail":
		// correct password, then wrong second-factor codes
		out := []Step{{Kind: "login", B: b, A: a, Sec: pw(a)}}
		n := 1 + g.r.Intn(c.LockAfter+1)
		for i := 0; i < n; i++ {
			if c.hasSetup("totp") && (g.r.Bool() || !c.hasSetup("sms")) {
				out = append(out, Step{Kind: "totp_validate", B: b, A: a, Sec: &SecretRef{Kind: "literal", Lit: fmt.Sprintf("%06d", g.r.Intn(1000000))}})
			} else if c.hasSetup("sms") {
				out = append(out, Step{Kind: "sms_validate", B: b, A: a, Sec: &SecretRef{Kind: "literal", Lit: fmt.Sprintf("%06d", g.r.Intn(1000000))}})
			}
		}
		return out
	}
	return nil
}

func (g *commonGen) afterLockGap(c *Config) time.Duration {
	d := durationsAround(g.r, c.LockDuration)
	if g.r.Chance(1, 3) {
		d = g.r.Dur(0, time.Second)
	}
	if d < 0 {
		d = 0
	}
	if c.WholeSecondClock {
		d = d.Round(time.Second)
	}
	return d
}
