package sim

import (
	"fmt"
	"time"
)

// template expands a named multi-step scenario with random parameters. The
// returned steps are queued and executed in order (other browsers do not
// interleave inside a template; interleaving comes from atomic steps between
// templates and from templates that name several browsers themselves).
func (g *commonGen) template(w *World, name string, b int) []Step {
	c := &w.Cfg
	a := g.pickAcct(w, b)
	if a < 0 {
		a = 0
	}
	pw := func(acct int) *SecretRef { return &SecretRef{Kind: "password", A: acct} }
	wrong := func() *SecretRef { return &SecretRef{Kind: "literal", Lit: fmt.Sprintf("Wr0ng-pass!%d", g.r.Intn(50))} }
	switch name {
	case "login_ok":
		return []Step{{Kind: "login", B: b, A: a, Sec: pw(a), RM: c.hasModule("remember") && g.r.Bool()}}
	case "fail_burst":
		// a burst of failures on one path, gaps on either side of the window
		n := 1 + g.r.Intn(c.LockAfter+2)
		var out []Step
		for i := 0; i < n; i++ {
			st := Step{Kind: "login", B: b, A: a, Sec: wrong()}
			if c.hasModule("otp") && g.r.Chance(1, 4) {
				st.Kind = "otp_login"
			}
			if i > 0 {
				if g.r.Chance(1, 3) {
					st.Gap = durationsAround(g.r, c.LockWindow)
				} else {
					st.Gap = g.r.Dur(0, c.LockWindow/time.Duration(n+1))
				}
				if c.WholeSecondClock {
					st.Gap = st.Gap.Round(time.Second)
				}
			}
			out = append(out, st)
		}
		if g.r.Bool() {
			out = append(out, Step{Kind: "login", B: b, A: a, Sec: pw(a), Gap: g.afterLockGap(c)})
		}
		return out
	case "lock_then_wait":
		var out []Step
		for i := 0; i < c.LockAfter; i++ {
			out = append(out, Step{Kind: "login", B: b, A: a, Sec: wrong()})
		}
		out = append(out, Step{Kind: "login", B: b, A: a, Sec: pw(a), Gap: g.afterLockGap(c)})
		return out
	case "op_lock_cycle":
		out := []Step{{Kind: "op_lock", B: b, A: a}, {Kind: "login", B: b, A: a, Sec: pw(a), Gap: g.afterLockGap(c)}}
		if g.r.Bool() {
			out = append(out, Step{Kind: "op_unlock", B: b, A: a}, Step{Kind: "login", B: b, A: a, Sec: wrong()}, Step{Kind: "login", B: b, A: a, Sec: pw(a)})
		}
		return out
	case "remember_cycle":
		// log in with rm, lose the session, come back with the cookie, replay the old cookie
		out := []Step{{Kind: "login", B: b, A: a, Sec: pw(a), RM: true}, {Kind: "drop_session", B: b}, g.fill(w, "probe", b)}
		switch g.r.Intn(4) {
		case 0: // stale copy presented again from the same browser
			out = append(out, Step{Kind: "drop_session", B: b}, Step{Kind: "stale_cookie", B: b, Str: map[string]string{"from": fmt.Sprint(b), "idx": "-2"}}, g.fill(w, "probe", b))
		case 1: // theft: another browser presents the current cookie first
			ob := (b + 1) % len(w.Browsers)
			out = append(out, Step{Kind: "copy_cookie", B: ob, Str: map[string]string{"from": fmt.Sprint(b)}}, Step{Kind: "drop_session", B: ob}, g.fill(w, "probe", ob),
				Step{Kind: "drop_session", B: b}, g.fill(w, "probe", b))
		case 2:
			out = append(out, Step{Kind: "logout", B: b}, g.fill(w, "probe", b))
		}
		return out
	case "recover_flow":
		out := []Step{{Kind: "recover_start", B: b, A: a}}
		if g.r.Chance(1, 4) {
			out = append(out, Step{Kind: "recover_start", B: b, A: a}) // supersedes the first
		}
		st := Step{Kind: "recover_end", B: b, A: a, Sec: g.secretFor(w, "recover_end", a, b), Sec2: g.newPassword()}
		if g.r.Chance(1, 3) {
			st.Gap = durationsAround(g.r, c.RecoverDur)
			if st.Gap < 0 {
				st.Gap = 0
			}
			if c.WholeSecondClock {
				st.Gap = st.Gap.Round(time.Second)
			}
		}
		out = append(out, st)
		if g.r.Bool() {
			out = append(out, Step{Kind: "login", B: b, A: a, Sec: pw(a)})
		}
		if g.r.Chance(1, 3) {
			out = append(out, Step{Kind: "login", B: b, A: a, Sec: &SecretRef{Kind: "oldpassword", A: a, Idx: -1}})
		}
		if g.r.Chance(1, 3) { // use the same link again
			out = append(out, Step{Kind: "recover_end", B: b, A: a, Sec: &SecretRef{Kind: "recover", A: a, Idx: -1}, Sec2: g.newPassword()})
		}
		return out
	case "register_flow":
		st := g.fill(w, "register", b)
		out := []Step{st}
		if c.hasModule("confirm") {
			out = append(out, Step{Kind: "confirm", B: b, A: st.A, Sec: g.secretFor(w, "confirm", st.A, b)})
		}
		out = append(out, Step{Kind: "login", B: b, A: st.A, Sec: pw(st.A)})
		return out
	case "oauth_flow":
		s1 := g.fill(w, "oauth2_start", b)
		s2 := g.fill(w, "oauth2_callback", b)
		s2.Str["provider"] = s1.Str["provider"]
		out := []Step{s1, s2}
		if g.r.Chance(1, 3) {
			out = append(out, Step{Kind: "replay", B: b})
		}
		return out
	case "otp_flow":
		out := []Step{{Kind: "login", B: b, A: a, Sec: pw(a)}, {Kind: "otp_add", B: b, A: a}, {Kind: "logout", B: b},
			{Kind: "otp_login", B: b, A: a, Sec: &SecretRef{Kind: "otp", A: a, Idx: -1}}}
		if g.r.Bool() {
			out = append(out, Step{Kind: "logout", B: b}, Step{Kind: "otp_login", B: b, A: a, Sec: &SecretRef{Kind: "otp", A: a, Idx: -1}})
		}
		return out
	case "otp_fill":
		// log in and add one-time passwords up to and beyond the limit
		out := []Step{{Kind: "login", B: b, A: a, Sec: pw(a)}}
		for i := 0; i < 4+g.r.Intn(4); i++ {
			out = append(out, Step{Kind: "otp_add", B: b, A: a})
		}
		return out
	case "oauth_remember":
		prov := c.Providers[g.r.Intn(len(c.Providers))]
		uid := []string{"", "a;;b", "x;y", "7"}[g.r.Intn(4)]
		cb := Step{Kind: "oauth2_callback", B: b, A: g.r.Intn(3), Str: map[string]string{"provider": prov, "code": "fresh"}}
		if uid != "" {
			cb.Str["uid"] = uid
		}
		cb.Sec = &SecretRef{Kind: "state", A: -1, Idx: -1}
		return []Step{{Kind: "oauth2_start", B: b, RM: true, Str: map[string]string{"provider": prov}}, cb, {Kind: "drop_session", B: b}, g.fill(w, "probe", b),
			{Kind: "drop_session", B: b}, g.fill(w, "probe", b)}
	case "remember_then_reset":
		ob := (b + 1) % len(w.Browsers)
		out := []Step{{Kind: "login", B: b, A: a, Sec: pw(a), RM: true}, {Kind: "login", B: ob, A: a, Sec: pw(a), RM: true}}
		if g.r.Bool() && c.hasModule("recover") {
			out = append(out, Step{Kind: "recover_start", B: b, A: a}, Step{Kind: "recover_end", B: b, A: a, Sec: &SecretRef{Kind: "recover", A: a, Idx: -1}, Sec2: g.newPassword()})
		} else {
			out = append(out, Step{Kind: "op_update_password", B: b, A: a, Sec: g.newPassword()})
		}
		out = append(out, Step{Kind: "drop_session", B: ob}, g.fill(w, "probe", ob), Step{Kind: "drop_session", B: b}, g.fill(w, "probe", b),
			Step{Kind: "login", B: ob, A: a, Sec: &SecretRef{Kind: "oldpassword", A: a, Idx: -1}}, Step{Kind: "login", B: ob, A: a, Sec: pw(a)})
		return out
	case "op_reset":
		return []Step{{Kind: "op_update_password", B: b, A: a, Sec: g.newPassword()}, {Kind: "login", B: b, A: a, Sec: &SecretRef{Kind: "oldpassword", A: a, Idx: -1}},
			{Kind: "login", B: b, A: a, Sec: pw(a)}}
	case "confirm_flow":
		out := []Step{{Kind: "op_start_confirm", B: b, A: a}}
		if g.r.Chance(1, 3) {
			out = append(out, Step{Kind: "op_start_confirm", B: b, A: a})
		}
		out = append(out, Step{Kind: "confirm", B: b, A: a, Sec: g.secretFor(w, "confirm", a, b)})
		if g.r.Bool() {
			out = append(out, Step{Kind: "confirm", B: b, A: a, Sec: &SecretRef{Kind: "confirm", A: a, Idx: -1}})
		}
		return out
	case "token_near_miss":
		// issue a token, submit several near misses, then the genuine one
		kind, issue, use := "recover", "recover_start", "recover_end"
		if g.r.Bool() {
			kind, issue, use = "confirm", "op_start_confirm", "confirm"
		}
		out := []Step{{Kind: issue, B: b, A: a}}
		n := 2 + g.r.Intn(5)
		oa := g.otherAcct(w, a)
		for i := 0; i < n; i++ {
			muts := []string{fmt.Sprintf("flipbit:%d", g.r.Intn(512)), fmt.Sprintf("trunc:%d", g.r.Intn(64)), fmt.Sprintf("extend:%d", g.r.Intn(6)),
				fmt.Sprintf("splice:%d", oa), fmt.Sprintf("splice2:%d", oa), "suffix:.", "suffix:,", "prefix: ", "upper", "stdalpha"}
			st := Step{Kind: use, B: b, A: a, Sec: &SecretRef{Kind: kind, A: a, Idx: -1, Mut: muts[g.r.Intn(len(muts))]}}
			if g.r.Chance(1, 5) {
				st.Sec = &SecretRef{Kind: "stored", A: a, Lit: kind + []string{"_selector", "_verifier"}[g.r.Intn(2)]}
			}
			if use == "recover_end" {
				st.Sec2 = g.newPassword()
			}
			out = append(out, st)
		}
		gen := Step{Kind: use, B: b, A: a, Sec: &SecretRef{Kind: kind, A: a, Idx: -1}}
		if g.r.Chance(1, 4) {
			gen.Sec.Mut = []string{"nopad", "crlf"}[g.r.Intn(2)]
		}
		if use == "recover_end" {
			gen.Sec2 = &SecretRef{Kind: "literal", Lit: fmt.Sprintf("Fresh-Pass9!%d", g.r.Intn(100))}
		}
		out = append(out, gen)
		return out
	case "twofa_login":
		// primary credential then the right second factor
		out := []Step{{Kind: "login", B: b, A: a, Sec: pw(a)}}
		return out
	case "twofa_fail":
		// correct password, then wrong second-factor codes
		out := []Step{{Kind: "login", B: b, A: a, Sec: pw(a)}}
		n := 1 + g.r.Intn(c.LockAfter+1)
		for i := 0; i < n; i++ {
			if c.hasSetup("totp") && (g.r.Bool() || !c.hasSetup("sms")) {
				out = append(out, Step{Kind: "totp_validate", B: b, A: a, Sec: &SecretRef{Kind: "literal", Lit: fmt.Sprintf("%06d", g.r.Intn(1000000))}})
			} else if c.hasSetup("sms") {
				out = append(out, Step{Kind: "sms_validate", B: b, A: a, Sec: &SecretRef{Kind: "literal", Lit: fmt.Sprintf("%06d", g.r.Intn(1000000))}})
			}
		}
		return out
	}
	return nil
}

func (g *commonGen) afterLockGap(c *Config) time.Duration {
	d := durationsAround(g.r, c.LockDuration)
	if g.r.Chance(1, 3) {
		d = g.r.Dur(0, time.Second)
	}
	if d < 0 {
		d = 0
	}
	if c.WholeSecondClock {
		d = d.Round(time.Second)
	}
	return d
}
