package sim

import (
	"fmt"
	"strings"
	"time"

	"github.com/volatiletech/authboss/v3"
)

// recoverTokenAge rates a recovery token's age: "fresh", "boundary" (exactly
// at the end of the validity period: either), "expired".
func (w *World) recoverTokenAge(s *Secret, now time.Time) string {
	exp := s.Issued.Add(w.Cfg.RecoverDur)
	switch {
	case now.Before(exp):
		return "fresh"
	case now.Equal(exp):
		return "boundary"
	}
	return "expired"
}

func usable(status string) bool { return status == "valid" || status == "maybe" }

// c01Oracle: a uid is put into a session only against a valid credential of
// that user carried by the same request.
type c01Oracle struct {
	// pendingBy[browser][pid] = true when this browser's session got a pending
	// second-factor login for pid from pid's own primary credential
	pendingBy map[int]map[string]bool
}

func newC01Oracle(w *World) Oracle { return &c01Oracle{pendingBy: map[int]map[string]bool{}} }

// primaryCredential reports whether the request carries a valid primary
// credential (password / OTP / recovery token with login-after-recovery) of pid.
func (w *World) primaryCredential(o *Obs, pid string) (string, bool) {
	st := o.Step
	a := w.acctByPID(pid)
	switch st.Kind {
	case "login":
		if w.pidOf(st.A, st) != pid {
			return "", false
		}
		if p := o.presented("password"); p != nil && p.Status == "valid" && o.RowsBefore[pid] != nil {
			return "password", true
		}
	case "otp_login":
		if w.pidOf(st.A, st) != pid {
			return "", false
		}
		if p := o.presented("otp"); p != nil && p.Known != nil && p.Known.Acct == a && a >= 0 && usable(p.Status) {
			return "otp", true
		}
	case "recover_end":
		if !w.Cfg.RecoverLogin {
			return "", false
		}
		if p := o.presented("token"); p != nil && p.Known != nil && p.Known.Kind == "recover" && p.Known.Acct == a && a >= 0 && usable(p.Status) &&
			w.recoverTokenAge(p.Known, o.Now) != "expired" {
			return "recover", true
		}
	}
	return "", false
}

func (w *World) credentialFor(o *Obs, pid string, c *c01Oracle) (string, bool) {
	st := o.Step
	a := w.acctByPID(pid)
	if k, ok := w.primaryCredential(o, pid); ok {
		return k, true
	}
	// remember-me cookie (only consulted without a session user)
	if w.rememberActive() && o.uidBefore() == "" {
		if p := o.presented("cookie"); p != nil && p.Known != nil && p.Known.Acct == a && a >= 0 && usable(p.Status) {
			return "rm", true
		}
	}
	switch st.Kind {
	case "oauth2_callback":
		if o.CodeUnused && st.str("error") == "" {
			u := w.idpUser(st)
			// the session must name exactly the pair the provider reported
			// (documented identifier: oauth2;;<provider>;;<uid>, uid verbatim)
			if row := o.RowsAfter[pid]; row != nil && row.OAuth2Provider == u.Provider && row.OAuth2UID == u.UID && pid == "oauth2;;"+u.Provider+";;"+u.UID {
				if p := o.presented("state"); p != nil && p.Value != "" && p.Value == o.SessBefore["oauth2_state"] {
					return "oauth2", true
				}
			}
		}
	case "register":
		if st.Fields[w.pidField()] == pid && o.RowsBefore[pid] == nil && o.RowsAfter[pid] != nil {
			return "register", true
		}
	case "totp_validate", "sms_validate":
		// second step of a login pid's own credential started in this session,
		// or re-validation by the user already in the session
		if o.uidBefore() == pid {
			return "2fa_current", true
		}
		key := strings.TrimSuffix(st.Kind, "_validate") + "_pending"
		if o.SessBefore[key] == pid && c.pendingBy[st.B][pid] {
			return "2fa_pending", true
		}
	}
	return "", false
}

func (c *c01Oracle) Check(w *World, o *Obs) []Violation {
	var out []Violation
	if !o.IsHTTP {
		if o.Step.Kind == "drop_session" {
			delete(c.pendingBy, o.Step.B)
		}
		return nil
	}
	st := o.Step
	// every uid the response put must be justified
	for _, ev := range o.SessEvents {
		if ev.Kind != authboss.ClientStateEventPut || ev.Key != authboss.SessionKey || ev.Value == "" {
			continue
		}
		kind, ok := w.credentialFor(o, ev.Value, c)
		if ok {
			w.Stats.Reach["c01_ok_"+kind]++
			continue
		}
		what := "none"
		for _, p := range o.Presented {
			if p.Known != nil {
				what = fmt.Sprintf("%s:%s:acct%d", p.Role, p.Status, p.Known.Acct)
			} else if what == "none" {
				what = p.Role + ":unknown"
			}
		}
		out = append(out, viol("C01", "session_without_credential", st.Kind, o,
			fmt.Sprintf("response put uid=%q but the request carried no currently valid credential of that user (presented: %s; step %s)", ev.Value, what, st.String())))
	}
	// identity otherwise unchanged
	if before, after := o.uidBefore(), o.uidAfter(); before != after {
		switch {
		case after == "" && st.Kind == "logout" && o.Method == w.Cfg.LogoutMethod:
		case after == "" && st.Kind == "replay" && o.Method == w.Cfg.LogoutMethod && strings.HasSuffix(o.Target, "/logout"):
		case after != "":
			if _, put := o.sessPut("uid"); !put {
				out = append(out, viol("C01", "identity_changed", st.Kind, o, fmt.Sprintf("uid changed %q -> %q without a put event", before, after)))
			}
		default:
			out = append(out, viol("C01", "identity_lost", st.Kind, o, fmt.Sprintf("uid %q disappeared on a request that is not a logout (%s %s)", before, o.Method, o.Target)))
		}
	}
	// remember which pending logins were started by the account's own credential
	for _, key := range []string{"totp_pending", "sms_pending"} {
		if pid, ok := o.sessPut(key); ok && pid != "" {
			if _, ok := w.primaryCredential(o, pid); ok {
				if c.pendingBy[st.B] == nil {
					c.pendingBy[st.B] = map[string]bool{}
				}
				c.pendingBy[st.B][pid] = true
			} else {
				out = append(out, viol("C01", "pending_without_credential", st.Kind, o,
					fmt.Sprintf("response parked a second-factor login for %q without that user's primary credential", pid)))
			}
		}
	}
	if o.SessAfter["uid"] == "" && o.SessAfter["totp_pending"] == "" && o.SessAfter["sms_pending"] == "" && len(o.SessAfter) == 0 {
		delete(c.pendingBy, st.B)
	}
	return out
}

func (c *c01Oracle) Finish(w *World) []Violation { return nil }
