package sim

import (
	"fmt"
	"runtime"
	"strconv"
	"strings"
	"sync"
	"sync/atomic"
	"testing/synctest"
	"time"
)

// concSched is the concurrent-mode scheduler (C20). Every client script is a
// task on its own goroutine; goroutines the library spawns claim a spare task
// at their first seam. Every task parks at every seam; when all are parked or
// finished (synctest quiescence) the seeded scheduler releases exactly one.
// One seed is therefore one exact interleaving of real goroutines.
//
// The hand-off must be invisible to the race detector (a serialising scheduler
// would otherwise give it a total happens-before order and it would never
// report anything): the scheduler goroutine runs inside RaceDisable, tasks
// bracket park/resume and registry look-ups with RaceDisable/RaceEnable, and
// everything scheduler and tasks share is either written before the goroutines
// exist (task records, wake channels) or an atomic.
type concSched struct {
	driver   uint64
	rng      *Rng
	tasks    [maxTasks]*ctask // all allocated by the driver up front
	nClient  int
	nLib     atomic.Int32 // spare tasks claimed by library goroutines
	picks    []string
	maxPicks int
	holdSite string // seam whose callers are released last (a slow back end)
	// extBlocked: library goroutines currently blocked outside the simulation
	// (see settle); extSeen: how often that was the case at a scheduling point
	extBlocked int
	extSeen    int
}

const (
	maxTasks   = 160
	maxClients = 16
)

type ctask struct {
	id     int
	name   string
	wake   chan int
	gid    atomic.Uint64 // goroutine that owns the task (0 = unclaimed)
	parked atomic.Bool
	done   atomic.Bool
	site   atomic.Value // string
	rng    *Rng         // only used by the owning goroutine
	logs   []string     // only used by the owning goroutine
}

func newConcSched() scheduler {
	s := &concSched{driver: goid(), maxPicks: 40000}
	for i := range s.tasks {
		t := &ctask{id: i, wake: make(chan int)}
		if i < maxClients {
			t.name = fmt.Sprintf("client%d", i)
		} else {
			t.name = fmt.Sprintf("lib%d", i-maxClients)
		}
		t.site.Store("")
		s.tasks[i] = t
	}
	return s
}

// lookup finds the calling goroutine's task. Only atomics are read.
func (s *concSched) lookup(g uint64) *ctask {
	raceDisable()
	defer raceEnable()
	for i := 0; i < maxClients; i++ {
		if s.tasks[i].gid.Load() == g {
			return s.tasks[i]
		}
	}
	n := int(s.nLib.Load())
	for i := 0; i < n && maxClients+i < maxTasks; i++ {
		if s.tasks[maxClients+i].gid.Load() == g {
			return s.tasks[maxClients+i]
		}
	}
	return nil
}

// claimClient is called by the driver before the client goroutine starts.
func (s *concSched) claimClient(n int, rng *Rng) *ctask {
	t := s.tasks[n]
	t.rng = rng
	return t
}

func (s *concSched) yield(w *World, site string) {
	g := goid()
	if g == s.driver {
		return
	}
	t := s.lookup(g)
	if t == nil {
		// a goroutine the library started by itself (mail sender)
		raceDisable()
		i := int(s.nLib.Add(1)) - 1
		raceEnable()
		if maxClients+i >= maxTasks {
			panic("sim: too many library goroutines")
		}
		t = s.tasks[maxClients+i]
		raceDisable()
		t.gid.Store(g)
		raceEnable()
	}
	s.park(t, site)
}

func (s *concSched) park(t *ctask, site string) {
	raceDisable()
	t.site.Store(site)
	t.parked.Store(true)
	<-t.wake
	t.parked.Store(false)
	raceEnable()
}

func (s *concSched) finish(t *ctask) {
	raceDisable()
	t.done.Store(true)
	raceEnable()
}

// run drives the tasks until nothing is parked any more. Must run on the
// driver goroutine.
func (s *concSched) run() error {
	raceDisable()
	defer raceEnable()
	var last *ctask
	idle := 0
	for n := 0; ; n++ {
		s.settle(last)
		var cands []*ctask
		lim := maxClients + int(s.nLib.Load())
		for i := 0; i < lim && i < maxTasks; i++ {
			t := s.tasks[i]
			if !t.done.Load() && t.parked.Load() {
				cands = append(cands, t)
			}
		}
		if len(cands) == 0 {
			// Nobody is parked. A library goroutine may still be asleep on a
			// timer (a retry back-off): the bubble's clock only moves when
			// every goroutine is blocked, this one included, so sleep once
			// and look again before calling the run finished.
			if idle >= 2 || s.extBlocked > 0 {
				return nil
			}
			idle++
			time.Sleep(10 * time.Minute)
			last = nil
			continue
		}
		idle = 0
		if s.holdSite != "" {
			// a slow back end: tasks waiting at that seam proceed only when
			// nobody else can
			var rest []*ctask
			for _, t := range cands {
				if t.site.Load().(string) != s.holdSite {
					rest = append(rest, t)
				}
			}
			if len(rest) > 0 {
				cands = rest
			}
		}
		if n > s.maxPicks {
			return fmt.Errorf("scheduler: more than %d picks", s.maxPicks)
		}
		t := cands[s.rng.Intn(len(cands))]
		s.picks = append(s.picks, t.name+"@"+t.site.Load().(string))
		t.parked.Store(false)
		t.wake <- 1
		last = t
	}
}

// settle waits until the simulation is quiescent: every goroutine of the bubble
// is parked at a seam, finished, or blocked.
//
// The normal case is synctest.Wait. It cannot be used while a library goroutine
// is blocked on something the simulation does not own (a package-level channel
// or a sync.Mutex whose holder is parked at a seam): such a goroutine is not
// "durably" blocked and Wait would never return, although the simulated system
// is perfectly alive - the holder only has to be scheduled. So the released
// task is watched for a few real milliseconds first; when it neither parks nor
// finishes, the goroutine states of the bubble are read from a stack dump, and
// for as long as some goroutine is blocked outside the simulation quiescence is
// decided from dumps ("nobody is running") instead of synctest.Wait. Which task
// the scheduler releases next stays a function of the seed alone.
func (s *concSched) settle(last *ctask) {
	if last == nil && s.extBlocked == 0 {
		synctest.Wait()
		return
	}
	if s.extBlocked == 0 {
		start := realTick.Load()
		for !last.parked.Load() && !last.done.Load() {
			if realTick.Load()-start >= 5 {
				break
			}
			runtime.Gosched()
		}
		if last.parked.Load() || last.done.Load() {
			synctest.Wait()
			return
		}
	}
	for spins := 0; ; spins++ {
		active, ext := bubbleStates(s.driver)
		if active == 0 {
			if ext == 0 {
				s.extBlocked = 0
				synctest.Wait()
				return
			}
			s.extBlocked = ext
			s.extSeen++
			return
		}
		start := realTick.Load()
		for realTick.Load() == start {
			runtime.Gosched()
		}
	}
}

// realTick counts real milliseconds; the goroutine lives outside every bubble.
var (
	realTick     atomic.Int64
	realTickOnce sync.Once
)

func startRealTick() {
	realTickOnce.Do(func() {
		go func() {
			for {
				time.Sleep(time.Millisecond)
				realTick.Add(1)
			}
		}()
	})
}

// bubbleStates reads the state of every goroutine of the (only) synctest
// bubble except the driver: how many are running or runnable, and how many
// are blocked on something outside the bubble.
func bubbleStates(driver uint64) (active, ext int) {
	buf := make([]byte, 1<<20)
	for {
		n := runtime.Stack(buf, true)
		if n < len(buf) {
			buf = buf[:n]
			break
		}
		buf = make([]byte, 2*len(buf))
	}
	// no fmt here: its sync.Pool would tie this race-disabled goroutine to the tasks
	me := "goroutine " + strconv.FormatUint(driver, 10) + " "
	for _, line := range strings.Split(string(buf), "\n") {
		if !strings.HasPrefix(line, "goroutine ") || !strings.HasSuffix(line, "]:") || !strings.Contains(line, "synctest bubble") {
			continue
		}
		if strings.HasPrefix(line, me) {
			continue
		}
		i := strings.IndexByte(line, '[')
		st := line[i+1:]
		switch {
		case strings.HasPrefix(st, "running"), strings.HasPrefix(st, "runnable"), strings.HasPrefix(st, "syscall"),
			strings.HasPrefix(st, "copystack"), strings.HasPrefix(st, "preempted"), strings.HasPrefix(st, "idle"):
			active++
		case strings.Contains(st, "(durable)"):
		default:
			ext++
		}
	}
	return
}

func (s *concSched) afterRequest(w *World) {}
