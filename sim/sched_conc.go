package sim

func newConcSched() scheduler { panic("concurrent scheduler not built yet") }
