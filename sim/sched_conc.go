package sim

import (
	"fmt"
	"sync/atomic"
	"testing/synctest"
)

// concSched is the concurrent-mode scheduler (C20). Every client script is a
// task on its own goroutine; goroutines the library spawns claim a spare task
// at their first seam. Every task parks at every seam; when all are parked or
// finished (synctest quiescence) the seeded scheduler releases exactly one.
// One seed is therefore one exact interleaving of real goroutines.
//
// The hand-off must be invisible to the race detector (a serialising scheduler
// would otherwise give it a total happens-before order and it would never
// report anything): the scheduler goroutine runs inside RaceDisable, tasks
// bracket park/resume and registry look-ups with RaceDisable/RaceEnable, and
// everything scheduler and tasks share is either written before the goroutines
// exist (task records, wake channels) or an atomic.
type concSched struct {
	driver   uint64
	rng      *Rng
	tasks    [maxTasks]*ctask // all allocated by the driver up front
	nClient  int
	nLib     atomic.Int32 // spare tasks claimed by library goroutines
	picks    []string
	maxPicks int
}

const (
	maxTasks   = 160
	maxClients = 16
)

type ctask struct {
	id     int
	name   string
	wake   chan int
	gid    atomic.Uint64 // goroutine that owns the task (0 = unclaimed)
	parked atomic.Bool
	done   atomic.Bool
	site   atomic.Value // string
	rng    *Rng         // only used by the owning goroutine
	logs   []string     // only used by the owning goroutine
}

func newConcSched() scheduler {
	s := &concSched{driver: goid(), maxPicks: 40000}
	for i := range s.tasks {
		t := &ctask{id: i, wake: make(chan int)}
		if i < maxClients {
			t.name = fmt.Sprintf("client%d", i)
		} else {
			t.name = fmt.Sprintf("lib%d", i-maxClients)
		}
		t.site.Store("")
		s.tasks[i] = t
	}
	return s
}

// lookup finds the calling goroutine's task. Only atomics are read.
func (s *concSched) lookup(g uint64) *ctask {
	raceDisable()
	defer raceEnable()
	for i := 0; i < maxClients; i++ {
		if s.tasks[i].gid.Load() == g {
			return s.tasks[i]
		}
	}
	n := int(s.nLib.Load())
	for i := 0; i < n && maxClients+i < maxTasks; i++ {
		if s.tasks[maxClients+i].gid.Load() == g {
			return s.tasks[maxClients+i]
		}
	}
	return nil
}

// claimClient is called by the driver before the client goroutine starts.
func (s *concSched) claimClient(n int, rng *Rng) *ctask {
	t := s.tasks[n]
	t.rng = rng
	return t
}

func (s *concSched) yield(w *World, site string) {
	g := goid()
	if g == s.driver {
		return
	}
	t := s.lookup(g)
	if t == nil {
		// a goroutine the library started by itself (mail sender)
		raceDisable()
		i := int(s.nLib.Add(1)) - 1
		raceEnable()
		if maxClients+i >= maxTasks {
			panic("sim: too many library goroutines")
		}
		t = s.tasks[maxClients+i]
		raceDisable()
		t.gid.Store(g)
		raceEnable()
	}
	s.park(t, site)
}

func (s *concSched) park(t *ctask, site string) {
	raceDisable()
	t.site.Store(site)
	t.parked.Store(true)
	<-t.wake
	t.parked.Store(false)
	raceEnable()
}

func (s *concSched) finish(t *ctask) {
	raceDisable()
	t.done.Store(true)
	raceEnable()
}

// run drives the tasks until nothing is parked any more. Must run on the
// driver goroutine.
func (s *concSched) run() error {
	raceDisable()
	defer raceEnable()
	for n := 0; ; n++ {
		synctest.Wait()
		var cands []*ctask
		lim := maxClients + int(s.nLib.Load())
		for i := 0; i < lim && i < maxTasks; i++ {
			t := s.tasks[i]
			if !t.done.Load() && t.parked.Load() {
				cands = append(cands, t)
			}
		}
		if len(cands) == 0 {
			return nil
		}
		if n > s.maxPicks {
			return fmt.Errorf("scheduler: more than %d picks", s.maxPicks)
		}
		t := cands[s.rng.Intn(len(cands))]
		s.picks = append(s.picks, t.name+"@"+t.site.Load().(string))
		t.wake <- 1
	}
}

func (s *concSched) afterRequest(w *World) {}
