package sim

import (
	"crypto/hmac"
	"crypto/sha1"
	"encoding/base32"
	"encoding/base64"
	"encoding/binary"
	"fmt"
	"strings"
	"time"
)

// Secret is one credential the harness typed or was shown.
type Secret struct {
	ID      int
	Kind    string // password otp recovery rm confirm recover everify sms state
	Acct    int    // owner account (-1: none)
	Browser int    // session the secret is bound to (everify, sms, state); -1 otherwise
	Value   string
	Number  string // sms: destination number
	Issued  time.Time
	Seq     uint64
	// Status evolves by the property statements:
	// valid | spent | superseded | revoked | maybe
	// "maybe": the statements leave open whether it is still usable.
	Status string
	Note   string
	// BeforeChange: (rm) the account's password has changed since the cookie
	// was issued - set whatever the status was at that moment
	BeforeChange bool
}

func (s *Secret) String() string {
	return fmt.Sprintf("%s#%d(acct=%d,%s)", s.Kind, s.ID, s.Acct, s.Status)
}

// KB is the ground-truth knowledge base.
type KB struct {
	w          *World
	Secrets    []*Secret
	Password   map[int]string   // current password per account, per acknowledged changes
	OldPw      map[int][]string // previous passwords
	TOTPSecret map[int]string
	SMSNumber  map[int]string
}

func newKB(w *World) *KB {
	return &KB{w: w, Password: map[int]string{}, OldPw: map[int][]string{}, TOTPSecret: map[int]string{}, SMSNumber: map[int]string{}}
}

func (k *KB) setPassword(a int, pw string) {
	if old, ok := k.Password[a]; ok && old != pw {
		k.OldPw[a] = append(k.OldPw[a], old)
	}
	k.Password[a] = pw
}

func (k *KB) addSecret(s *Secret) *Secret {
	s.ID = len(k.Secrets)
	if s.Status == "" {
		s.Status = "valid"
	}
	if s.Issued.IsZero() {
		s.Issued = time.Now()
	}
	s.Seq = k.w.seq
	k.Secrets = append(k.Secrets, s)
	return s
}

// list returns the secrets of a kind for an account (-1: any), oldest first.
func (k *KB) list(kind string, acct int) []*Secret {
	var out []*Secret
	for _, s := range k.Secrets {
		if s.Kind == kind && (acct < 0 || s.Acct == acct) {
			out = append(out, s)
		}
	}
	return out
}

// find returns the secret of a kind with exactly this value.
func (k *KB) find(kind, value string) *Secret {
	for i := len(k.Secrets) - 1; i >= 0; i-- {
		s := k.Secrets[i]
		if s.Kind == kind && s.Value == value {
			return s
		}
	}
	return nil
}

// findToken matches a submitted token string against issued tokens on decoded
// bytes: alternative base64 spellings of the same bytes are the same token.
func (k *KB) findToken(kind, submitted string) *Secret {
	raw, ok := lenientB64(submitted)
	if !ok {
		return nil
	}
	for i := len(k.Secrets) - 1; i >= 0; i-- {
		s := k.Secrets[i]
		if s.Kind != kind {
			continue
		}
		r2, ok := lenientB64(s.Value)
		if ok && string(r2) == string(raw) {
			return s
		}
	}
	return nil
}

// lenientB64 decodes URL-safe base64 with or without padding, ignoring CR/LF.
func lenientB64(s string) ([]byte, bool) {
	s = strings.NewReplacer("\r", "", "\n", "").Replace(s)
	if b, err := base64.URLEncoding.DecodeString(s); err == nil {
		return b, true
	}
	if b, err := base64.RawURLEncoding.DecodeString(s); err == nil {
		return b, true
	}
	return nil, false
}

// acctByEmail maps a mail address to the account that owns it.
func (w *World) acctByEmail(addr string) int {
	for _, a := range w.Accts {
		if a.Email == addr {
			return a.N
		}
	}
	return -1
}

func (w *World) acctByPID(pid string) int {
	for _, a := range w.Accts {
		if a.PID == pid {
			return a.N
		}
	}
	return -1
}

// --- independent RFC 6238 implementation ------------------------------------------

func totpAt(secret string, t time.Time) string {
	key, err := base32.StdEncoding.WithPadding(base32.NoPadding).DecodeString(strings.ToUpper(strings.TrimRight(secret, "=")))
	if err != nil {
		return ""
	}
	counter := uint64(t.Unix() / 30)
	var msg [8]byte
	binary.BigEndian.PutUint64(msg[:], counter)
	m := hmac.New(sha1.New, key)
	m.Write(msg[:])
	sum := m.Sum(nil)
	off := sum[len(sum)-1] & 0x0f
	v := (uint32(sum[off])&0x7f)<<24 | uint32(sum[off+1])<<16 | uint32(sum[off+2])<<8 | uint32(sum[off+3])
	return fmt.Sprintf("%06d", v%1000000)
}

// totpVerdict rates a code against a secret at time t: "fresh" (current
// period: must be accepted), "skew" (±1 period: either), "stale" (must be
// rejected).
func totpVerdict(secret, code string, t time.Time) string {
	if trimmed := strings.TrimSpace(code); trimmed != code {
		// the digits wrapped in white space: a verifier may or may not strip it
		if totpVerdict(secret, trimmed, t) != "stale" {
			return "skew"
		}
		return "stale"
	}
	if secret == "" || len(code) != 6 {
		return "stale"
	}
	if totpAt(secret, t) == code {
		return "fresh"
	}
	for _, d := range []time.Duration{-30 * time.Second, 30 * time.Second} {
		if totpAt(secret, t.Add(d)) == code {
			return "skew"
		}
	}
	return "stale"
}
