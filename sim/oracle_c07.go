package sim

import (
	"encoding/json"
	"fmt"
	"strings"

	"github.com/volatiletech/authboss/v3"
)

// c07Oracle: remember-me cookies are single-use, bound to one user, grant
// half-auth only, and are issued only on request.
type c07Oracle struct {
	// startRM[browser]: whether this browser's most recent OAuth2 start request
	// asked to be remembered
	startRM map[int]bool
}

func newC07Oracle(w *World) Oracle { return &c07Oracle{startRM: map[int]bool{}} }

func pidClass(pid string) string {
	switch {
	case strings.HasPrefix(pid, "oauth2;;"):
		return "oauth2"
	case strings.Contains(pid, ";"):
		return "semicolon"
	}
	return "plain"
}

func hasPut(evs []authboss.ClientStateEvent, key string) (string, bool) {
	v, ok := "", false
	for _, ev := range evs {
		if ev.Kind == authboss.ClientStateEventPut && ev.Key == key {
			v, ok = ev.Value, true
		}
	}
	return v, ok
}

func (c *c07Oracle) Check(w *World, o *Obs) []Violation {
	var out []Violation
	if !o.IsHTTP || !w.Cfg.hasModule("remember") || w.Cfg.hasSetup("expire") {
		return nil
	}
	st := o.Step
	if _, delivered := o.sessPut("oauth2_state"); st.Kind == "oauth2_start" && delivered {
		// (a start whose response failed may still have delivered its session changes)
		asked := strings.Contains(o.Target, "rm=true")
		if c.startRM[st.B] && !asked {
			w.Stats.Reach["c07_plain_start_after_rm_start"]++
		}
		c.startRM[st.B] = asked
	}
	cookie := o.presented("cookie")
	isProbe := st.Kind == "probe"
	faulted := o.FaultFired != "" || o.Panic != ""

	if cookie != nil && o.uidBefore() == "" {
		s := cookie.Known
		switch {
		case s != nil && s.Kind == "rm" && s.Acct >= 0 && cookie.Status == "valid":
			pid := w.Accts[s.Acct].PID
			if o.RowsBefore[pid] == nil {
				break // account deleted: tokens cascade
			}
			if isProbe && !faulted {
				uid, ok := hasPut(o.SessEvents, "uid")
				if !ok || uid != pid {
					out = append(out, viol("C07", "valid_cookie_not_honoured", "middleware", o,
						fmt.Sprintf("an unused remember cookie issued to %q did not re-authenticate it (uid put: %q)", pid, uid), "pid", pidClass(pid)))
					break
				}
				w.Stats.Reach["c07_cookie_authenticated"]++
				w.Stats.Reach["c07_cookie_authenticated_"+pidClass(pid)]++
				if v, ok := hasPut(o.SessEvents, authboss.SessionHalfAuthKey); !ok || v != "true" || o.SessAfter[authboss.SessionHalfAuthKey] != "true" {
					out = append(out, viol("C07", "no_halfauth_mark", "middleware", o, fmt.Sprintf("cookie login of %q did not mark the session half-authenticated", pid)))
				}
				// "marks the session as half-authenticated": also for the very
				// request the cookie authenticated - a guard asking for full
				// authentication must refuse it
				if path := st.str("path"); o.Probe != nil && o.Probe.Ran &&
					(strings.HasPrefix(path, "/probe/mw/1/") || strings.HasPrefix(path, "/probe/mw/3/") || strings.HasPrefix(path, "/probe/legacy/1/") || strings.HasPrefix(path, "/probe/legacy/3/")) {
					out = append(out, viol("C07", "cookie_request_passed_full_auth", "middleware", o,
						fmt.Sprintf("the request the cookie of %q authenticated was served behind a guard that asks for full authentication (%s)", pid, path)))
				} else if strings.HasPrefix(path, "/probe/mw/1/") || strings.HasPrefix(path, "/probe/mw/3/") {
					w.Stats.Reach["c07_cookie_request_refused_by_full_auth_guard"]++
				}
				nv := o.CookAfter["rm"]
				if nv == "" || nv == cookie.Value {
					out = append(out, viol("C07", "not_rotated", "middleware", o, fmt.Sprintf("cookie login of %q did not replace the cookie by a fresh one", pid)))
				} else if old := w.KB.find("rm", nv); old != nil {
					out = append(out, viol("C07", "rotated_to_old_value", "middleware", o, fmt.Sprintf("cookie login of %q rotated to a value seen before", pid)))
				}
			}
		case s == nil || cookie.Status == "spent" || cookie.Status == "revoked" || cookie.Status == "superseded":
			stt := "unknown"
			if s != nil {
				stt = cookie.Status
			}
			if isProbe {
				if uid, ok := hasPut(o.SessEvents, "uid"); ok && uid != "" {
					out = append(out, viol("C07", "dead_cookie_authenticated", "middleware", o,
						fmt.Sprintf("a remember cookie that is %s logged in %q", stt, uid), "status", stt))
				} else {
					w.Stats.Reach["c07_dead_cookie_refused_"+stt]++
				}
				if !faulted && o.CookAfter["rm"] != "" {
					out = append(out, viol("C07", "dead_cookie_kept", "middleware", o,
						fmt.Sprintf("a remember cookie that is %s was not deleted from the client", stt), "status", stt))
				}
			}
		}
	}

	// a session the cookie produced stays half-authenticated unless the same
	// request also proved something else of that user
	if cookie != nil && o.uidBefore() == "" && cookie.Known != nil && cookie.Known.Kind == "rm" && cookie.Status == "valid" && cookie.Known.Acct >= 0 && !faulted {
		pid := w.Accts[cookie.Known.Acct].PID
		row := o.RowsBefore[pid]
		if raw, ok := hasPut(o.SessEvents, "uid"); ok && raw == pid && o.SessAfter["uid"] == pid && o.SessAfter[authboss.SessionHalfAuthKey] == "" && row != nil {
			_, other := w.primaryCredential(o, pid)
			if st.Kind == "recover_end" {
				if p := o.presented("token"); p != nil && p.Known != nil && p.Known.Acct == cookie.Known.Acct && usable(p.Status) {
					other = true
				}
			}
			a := cookie.Known.Acct
			if rc := o.presented("recovery"); rc != nil && rc.Known != nil && rc.Known.Acct == a && usable(rc.Status) {
				other = true
			}
			if code := o.presented("code"); code != nil {
				if st.Kind == "totp_validate" && totpVerdict(row.TOTPSecretKey, code.Value, o.Now) != "stale" {
					other = true
				}
				if st.Kind == "sms_validate" && code.Known != nil && code.Known.Kind == "sms" && row.SMSPhone != "" && code.Known.Number == row.SMSPhone && code.Status != "superseded" {
					other = true
				}
			}
			if st.Kind == "oauth2_callback" && o.CodeUnused {
				other = true
			}
			if !other {
				out = append(out, viol("C07", "cookie_session_fully_authed", st.Kind, o,
					fmt.Sprintf("the session of %q came from its remember cookie alone, yet after %s it carries no half-auth mark (2fa mark %q)", pid, st.Kind, o.SessAfter["twofactor"])))
			} else {
				w.Stats.Reach["c07_cookie_plus_credential_full_auth"]++
			}
		}
	}

	// issued only when asked
	rotationPossible := cookie != nil && o.uidBefore() == ""
	if !rotationPossible && !o.Replay {
		asked, loginKind := false, false
		switch st.Kind {
		case "login", "otp_login":
			asked, loginKind = st.RM, true
		case "oauth2_callback":
			loginKind = true
			// what the flow's own start request asked for, not whatever an
			// earlier, abandoned attempt left in the session
			asked = c.startRM[st.B]
			var params map[string]string
			_ = json.Unmarshal([]byte(o.SessBefore["oauth2_params"]), &params)
		}
		_, putRM := hasPut(o.CookEvents, "rm")
		if putRM && !asked {
			out = append(out, viol("C07", "cookie_without_request", st.Kind, o, "a remember cookie was issued although the request did not ask to be remembered"))
		}
		if loginKind && asked && !faulted {
			if uid, ok := o.sessPut("uid"); ok && uid != "" {
				if !putRM {
					out = append(out, viol("C07", "cookie_not_issued", st.Kind, o, fmt.Sprintf("login of %q asked to be remembered but no cookie was issued", uid)))
				} else {
					w.Stats.Reach["c07_cookie_issued"]++
				}
			}
		}
	}
	// a full login clears the half-auth mark
	switch st.Kind {
	case "login", "otp_login", "oauth2_callback", "totp_validate", "sms_validate":
		if uid, ok := o.sessPut("uid"); ok && uid != "" && !rotationPossible && o.SessAfter[authboss.SessionHalfAuthKey] != "" {
			out = append(out, viol("C07", "halfauth_survives_full_login", st.Kind, o, fmt.Sprintf("full login of %q left the half-auth mark in place", uid)))
		} else if ok && uid != "" && o.SessBefore[authboss.SessionHalfAuthKey] != "" {
			w.Stats.Reach["c07_halfauth_cleared"]++
		}
	}
	return out
}

func (c *c07Oracle) Finish(w *World) []Violation { return nil }
