package sim

import (
	"encoding/binary"
	"errors"
	"sync"
	"time"
)

// Rng is a splitmix64 generator: the only source of choices in a run.
type Rng struct{ s uint64 }

func NewRng(seed uint64) *Rng { return &Rng{s: seed} }

func (r *Rng) U64() uint64 {
	r.s += 0x9e3779b97f4a7c15
	z := r.s
	z = (z ^ (z >> 30)) * 0xbf58476d1ce4e5b9
	z = (z ^ (z >> 27)) * 0x94d049bb133111eb
	return z ^ (z >> 31)
}

// Fork derives an independent stream (so that adding draws in one place does
// not shift every other decision of the run).
func (r *Rng) Fork(tag uint64) *Rng {
	return &Rng{s: r.U64() ^ (tag * 0xd6e8feb86659fd93)}
}

func (r *Rng) Intn(n int) int {
	if n <= 0 {
		return 0
	}
	return int(r.U64() % uint64(n))
}

func (r *Rng) Bool() bool { return r.U64()&1 == 1 }

// Chance returns true with probability num/den.
func (r *Rng) Chance(num, den int) bool { return r.Intn(den) < num }

func (r *Rng) Pick(ss []string) string {
	if len(ss) == 0 {
		return ""
	}
	return ss[r.Intn(len(ss))]
}

func (r *Rng) Dur(lo, hi time.Duration) time.Duration {
	if hi <= lo {
		return lo
	}
	return lo + time.Duration(r.U64()%uint64(hi-lo+1))
}

// Weighted picks an index according to integer weights.
func (r *Rng) Weighted(w []int) int {
	t := 0
	for _, x := range w {
		if x > 0 {
			t += x
		}
	}
	if t == 0 {
		return 0
	}
	k := r.Intn(t)
	for i, x := range w {
		if x <= 0 {
			continue
		}
		if k < x {
			return i
		}
		k -= x
	}
	return len(w) - 1
}

func (r *Rng) Perm(n int) []int {
	p := make([]int, n)
	for i := range p {
		p[i] = i
	}
	for i := n - 1; i > 0; i-- {
		j := r.Intn(i + 1)
		p[i], p[j] = p[j], p[i]
	}
	return p
}

// seededReader replaces crypto/rand.Reader for the duration of a run.
// It can be told to fail (fault kind rand_err).
type seededReader struct {
	rng     *Rng
	failN   int // fail the next failN reads
	reads   int
	onRead  func()
	blocked bool
	// perTask returns the calling task's own stream in concurrent mode (so
	// that a client's randomness does not depend on the interleaving)
	perTask  func() *Rng
	zeroTail int // Config.ZeroTailRand
	mu       sync.Mutex
}

var errRand = errors.New("sim: injected entropy failure")

func (s *seededReader) Read(p []byte) (int, error) {
	if s.onRead != nil {
		s.onRead()
	}
	if s.perTask == nil {
		s.reads++
	}
	if s.failN > 0 {
		s.failN--
		return 0, errRand
	}
	rng := s.rng
	if s.perTask != nil {
		if tr := s.perTask(); tr != nil {
			rng = tr
		} else {
			s.mu.Lock()
			defer s.mu.Unlock()
		}
	}
	var b [8]byte
	for i := 0; i < len(p); i += 8 {
		binary.LittleEndian.PutUint64(b[:], rng.U64())
		copy(p[i:], b[:])
	}
	if s.zeroTail > 0 && len(p) == 64 {
		// a token whose last bytes happen to be zero
		for i := len(p) - s.zeroTail; i < len(p); i++ {
			p[i] = 0
		}
	}
	return len(p), nil
}
