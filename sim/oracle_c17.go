package sim

import (
	"crypto/sha512"
	"encoding/base64"
	"fmt"
	"strings"

	"github.com/volatiletech/authboss/v3"
	"golang.org/x/crypto/bcrypt"
)

// --- C17: secrets are never stored or logged in recoverable form -----------------

type c17Oracle struct {
	extra map[string]string // further plaintexts the harness typed (new passwords), value -> kind
	// selOwner: every confirm / recover selector ever seen in storage -> the
	// account that held it (a mail may be delivered after its token was replaced)
	selOwner map[string]string
	// everifyAsked: e-mail addresses of the accounts that have asked for a 2FA
	// authorisation mail so far
	everifyAsked map[string]bool
}

func newC17Oracle(w *World) Oracle {
	return &c17Oracle{extra: map[string]string{}, selOwner: map[string]string{}, everifyAsked: map[string]bool{}}
}

// secretsToScan lists every plaintext of length >= 8 the harness knows.
func (c *c17Oracle) secretsToScan(w *World) map[string]string {
	m := map[string]string{}
	add := func(v, kind string) {
		if len(v) >= 8 {
			m[v] = kind
		}
	}
	for _, p := range w.KB.Password {
		add(p, "password")
	}
	for _, l := range w.KB.OldPw {
		for _, p := range l {
			add(p, "password")
		}
	}
	for v, k := range c.extra {
		add(v, k)
	}
	for _, s := range w.KB.Secrets {
		switch s.Kind {
		case "otp", "recovery":
			add(s.Value, s.Kind)
		case "rm":
			add(s.Value, "remember_cookie")
			if raw, ok := lenientB64(s.Value); ok {
				add(string(raw), "remember_token_raw")
			}
		case "confirm", "recover":
			add(s.Value, s.Kind+"_token")
			if raw, ok := lenientB64(s.Value); ok {
				add(string(raw), s.Kind+"_token_raw")
			}
		case "everify":
			add(s.Value, "everify_token")
		}
	}
	return m
}

func (c *c17Oracle) Check(w *World, o *Obs) []Violation {
	var out []Violation
	st := o.Step
	// plaintexts typed in this step
	switch st.Kind {
	case "register":
		c.extra[st.Fields["password"]] = "password"
	case "recover_end":
		c.extra[w.lastSec2] = "password"
	case "op_update_password":
		c.extra[w.lastSec] = "password"
	}
	// kbUpdate has not run yet for this step: harvest what the step revealed
	// in a scratch copy of the list (tokens mailed / shown now)
	now := map[string]string{}
	for _, m := range o.Mails {
		if len(m.Token) >= 8 && m.Kind == "everify" {
			now[m.Token] = "everify_token"
		}
		if len(m.Token) >= 8 && (m.Kind == "confirm" || m.Kind == "recover") {
			now[m.Token] = m.Kind + "_token"
			if raw, ok := lenientB64(m.Token); ok {
				now[string(raw)] = m.Kind + "_token_raw"
			}
		}
	}
	if o.JSON != nil {
		if v, ok := o.JSON["otp"].(string); ok && len(v) >= 8 {
			now[v] = "otp"
		}
		if l, ok := o.JSON["recovery_codes"].([]interface{}); ok {
			for _, x := range l {
				if s, ok := x.(string); ok && len(s) >= 8 {
					now[s] = "recovery"
				}
			}
		}
	}
	if v, put := hasPut(o.CookEvents, "rm"); put && len(v) >= 8 {
		now[v] = "remember_cookie"
		if raw, ok := lenientB64(v); ok {
			now[string(raw)] = "remember_token_raw"
		}
	}
	secrets := c.secretsToScan(w)
	for k, v := range now {
		secrets[k] = v
	}
	keys := make([]string, 0, len(secrets))
	for k := range secrets {
		keys = append(keys, k)
	}
	sortStrings(keys)

	// storage
	for _, pid := range sortedRowKeys(o.RowsAfter) {
		row := o.RowsAfter[pid]
		f := row.fields()
		for _, fname := range sortedKeys(f) {
			val := f[fname]
			if val == "" || fname == "pid" || fname == "email" || fname == "totp_secret" || fname == "sms_phone" || strings.HasPrefix(fname, "oauth2_") {
				continue
			}
			for _, sec := range keys {
				if strings.Contains(val, sec) {
					out = append(out, viol("C17", "plaintext_in_storage", fname, o,
						fmt.Sprintf("stored field %s of %s contains a %s in plaintext", fname, pid, secrets[sec]), "kind", secrets[sec]))
				}
			}
		}
	}
	for _, t := range o.RMAfter {
		for _, sec := range keys {
			if strings.HasPrefix(secrets[sec], "remember") && strings.Contains(t, sec) {
				out = append(out, viol("C17", "plaintext_in_storage", "remember_table", o, "the remember-token table holds a cookie value / raw token", "kind", secrets[sec]))
			}
		}
	}
	// the session and cookie stores (Config.Storage.SessionState / CookieState)
	// are storage too; what the user types - passwords, one-time passwords,
	// recovery codes - has no business in them
	if o.IsHTTP {
		for _, jar := range []struct {
			name string
			m    map[string]string
		}{{"session", o.SessAfter}, {"cookie", o.CookAfter}} {
			for _, k := range sortedKeys(jar.m) {
				if strings.HasPrefix(k, "app_") || k == "guid" {
					continue
				}
				for _, sec := range keys {
					kind := secrets[sec]
					if (kind == "password" || kind == "otp" || kind == "recovery") && len(sec) >= 8 && strings.Contains(jar.m[k], sec) {
						out = append(out, viol("C17", "plaintext_in_client_state", jar.name, o,
							fmt.Sprintf("%s value %q holds a %s in plaintext", jar.name, k, kind), "kind", kind))
					}
				}
			}
		}
		w.Stats.Reach["c17_client_state_scanned"]++
	}
	// log stream
	for _, line := range o.Logs {
		for _, sec := range keys {
			if strings.Contains(line, sec) || strings.Contains(line, queryEscape(sec)) && queryEscape(sec) != sec {
				src := "handler"
				if strings.Contains(line, "request error from") {
					src = "error_handler"
				}
				out = append(out, viol("C17", "secret_in_log", st.Kind, o,
					fmt.Sprintf("log line contains a %s: %s", secrets[sec], clip(strings.TrimSpace(line), 220)), "kind", secrets[sec], "source", src))
			}
		}
	}
	// mail recipients
	for _, pid := range sortedRowKeys(o.RowsAfter) {
		row := o.RowsAfter[pid]
		if row.ConfirmSelector != "" {
			c.selOwner["confirm/"+row.ConfirmSelector] = pid
		}
		if row.RecoverSelector != "" {
			c.selOwner["recover/"+row.RecoverSelector] = pid
		}
	}
	if st.Kind == "everify_start" && o.IsHTTP {
		if row := o.RowsBefore[o.uidBefore()]; row != nil {
			c.everifyAsked[row.Email] = true
		}
	}
	for _, m := range o.Mails {
		var allowed []string
		switch m.Kind {
		case "confirm", "recover":
			// the account the token belongs to: the one whose stored selector
			// is (or was) the hash of the token's first half - a mail may be
			// delivered some requests after it was produced
			owner := c.selOwner[m.Kind+"/"+tokenSelector(m.Token)]
			row := o.RowsAfter[owner]
			if row == nil {
				// not the token of any account that exists (any more)
				w.Stats.Reach["c17_mail_of_unowned_token"]++
				continue
			}
			allowed = append(allowed, row.Email)
			if m.Kind == "recover" {
				allowed = append(allowed, row.Secondary...)
			}
		case "everify":
			// (the token lives in a session, not in storage: any account that
			// has asked for such a mail may be its addressee)
			allowed = append(allowed, sortedBoolKeys(c.everifyAsked)...)
		default:
			continue
		}
		ok := func(addr string) bool {
			for _, a := range allowed {
				if a == addr {
					return true
				}
			}
			return false
		}
		for _, addr := range append(append(append([]string{}, m.To...), m.Cc...), m.Bcc...) {
			if !ok(addr) {
				out = append(out, viol("C17", "token_mailed_elsewhere", m.Kind, o, fmt.Sprintf("a %s token was mailed to %q, allowed recipients %v", m.Kind, addr, allowed)))
			}
		}
		if len(m.To) > 0 {
			w.Stats.Reach["c17_mail_checked_"+m.Kind]++
		}
	}
	w.Stats.Reach["c17_secrets_scanned"] += len(keys)
	if len(o.Logs) > 0 {
		w.Stats.Reach["c17_log_lines_scanned"] += len(o.Logs)
	}
	return out
}

// tokenSelector is the stored selector of a mailed confirm / recover token as
// the library documents it: base64(SHA-512(first half of the 64 token bytes)).
func tokenSelector(token string) string {
	raw, ok := lenientB64(token)
	if !ok || len(raw) != 64 {
		return ""
	}
	sum := sha512.Sum512(raw[:32])
	return base64.StdEncoding.EncodeToString(sum[:])
}

func sortedBoolKeys(m map[string]bool) []string {
	ks := make([]string, 0, len(m))
	for k := range m {
		ks = append(ks, k)
	}
	sortStrings(ks)
	return ks
}

func queryEscape(s string) string {
	return strings.NewReplacer("=", "%3D", "+", "%2B", "/", "%2F").Replace(s)
}

func (c *c17Oracle) Finish(w *World) []Violation { return nil }

// --- C19: registration creates exactly one account, never overwrites ---------------

type c19Oracle struct {
	real authboss.Hasher
}

func newC19Oracle(w *World) Oracle {
	return &c19Oracle{real: authboss.NewBCryptHasher(bcrypt.MinCost)}
}

func (c *c19Oracle) Check(w *World, o *Obs) []Violation {
	var out []Violation
	st := o.Step
	if !o.IsHTTP || st.Kind != "register" || o.Method != "POST" {
		return nil
	}
	cfg := &w.Cfg
	pid := st.Fields[w.pidField()]
	pw := st.Fields["password"]
	faulted := o.FaultFired != "" || o.Panic != ""
	var added []string
	for _, p := range sortedRowKeys(o.RowsAfter) {
		if o.RowsBefore[p] == nil {
			added = append(added, p)
		}
	}
	for _, p := range sortedRowKeys(o.RowsBefore) {
		after := o.RowsAfter[p]
		if after == nil || after.canon() != o.RowsBefore[p].canon() {
			cl := "existing_account_changed"
			if p == pid {
				cl = "duplicate_registration_overwrote"
			}
			out = append(out, viol("C19", cl, "register", o, fmt.Sprintf("registration of %q changed the existing row %q", pid, p)))
		}
	}
	uid, loggedIn := w.loginPut(o)
	dup := o.RowsBefore[pid] != nil
	if dup {
		w.Stats.Reach["c19_duplicate"]++
		if loggedIn && uid == pid {
			out = append(out, viol("C19", "duplicate_logged_in", "register", o, fmt.Sprintf("re-registering %q logged the requester in as the existing account", pid)))
		}
	}
	if len(added) > 1 {
		out = append(out, viol("C19", "several_rows_created", "register", o, fmt.Sprintf("one registration created %d rows: %v", len(added), added)))
	}
	if len(added) == 1 {
		w.Stats.Reach["c19_created"]++
		row := o.RowsAfter[added[0]]
		if row.PID != pid {
			out = append(out, viol("C19", "wrong_identifier", "register", o, fmt.Sprintf("submitted %q, created %q", pid, row.PID)))
		}
		if row.Password == pw || len(pw) >= 4 && strings.Contains(row.Password, pw) {
			out = append(out, viol("C19", "plaintext_password_stored", "register", o, "the new row's password field is the submitted plaintext"))
		} else if c.real.CompareHashAndPassword(row.Password, pw) != nil {
			out = append(out, viol("C19", "password_hash_mismatch", "register", o, "the new row's password field does not verify the submitted password"))
		}
		for _, k := range sortedKeys(row.arbitrarySeen) {
			if k != "email" && k != "password" && k != "name" {
				out = append(out, viol("C19", "non_whitelisted_field", "register", o, fmt.Sprintf("PutArbitrary received the non-whitelisted key %q", k), "key", k))
			}
		}
		// nothing but the documented fields may be set on the new row
		clean := &Row{PID: row.PID, Email: row.Email, Password: row.Password, Arbitrary: row.Arbitrary,
			ConfirmSelector: row.ConfirmSelector, ConfirmVerifier: row.ConfirmVerifier}
		if cfg.hasSetup("expire") || true {
			// lock module's bookkeeping on the auto-login is not part of registration
			clean.AttemptCount, clean.LastAttempt = row.AttemptCount, row.LastAttempt
		}
		if clean.canon() != row.canon() {
			out = append(out, viol("C19", "hostile_field_took_effect", "register", o, fmt.Sprintf("new row carries state a registration must not set: %s", row.canon())))
		}
		if !cfg.hasModule("confirm") && (row.ConfirmSelector != "" || row.ConfirmVerifier != "") {
			out = append(out, viol("C19", "hostile_field_took_effect", "register", o, "new row has confirmation tokens although confirm is not loaded"))
		}
		if faulted && cfg.hasModule("confirm") && loggedIn && uid == pid {
			// a failing back end may make the registration fail, never log
			// the unconfirmed user in
			out = append(out, viol("C19", "logged_in_before_confirmation", "register", o, fmt.Sprintf("%q was logged in although e-mail confirmation is in force (a back-end call of this request failed: %s)", pid, o.FaultFired), "faulted", "true"))
		}
		if !faulted {
			if cfg.hasModule("confirm") {
				if loggedIn && uid == pid {
					out = append(out, viol("C19", "logged_in_before_confirmation", "register", o, fmt.Sprintf("%q was logged in although e-mail confirmation is in force", pid)))
				} else {
					w.Stats.Reach["c19_not_logged_in_with_confirm"]++
				}
				if row.Confirmed {
					out = append(out, viol("C19", "created_confirmed", "register", o, fmt.Sprintf("%q was created already confirmed", pid)))
				}
			} else if !(loggedIn && uid == pid) && !o.errorOutcome() {
				out = append(out, viol("C19", "not_logged_in", "register", o, fmt.Sprintf("%q was created without confirmation in force but not logged in", pid)))
			} else if loggedIn {
				w.Stats.Reach["c19_logged_in"]++
			}
		}
	}
	if len(added) == 0 && loggedIn && !dup {
		if ck := o.presented("cookie"); ck == nil {
			out = append(out, viol("C19", "logged_in_without_account", "register", o, fmt.Sprintf("registration created nothing yet put uid %q", uid)))
		}
	}
	// the default validation of the page includes the confirmation field: a
	// non-empty password whose confirmation is absent, empty or different
	// fails validation, so nothing is created
	if cf, has := st.Fields["confirm_password"]; pw != "" && (!has || cf != pw) && !faulted {
		how := "different"
		switch {
		case !has:
			how = "absent"
		case cf == "":
			how = "empty"
		}
		if len(added) > 0 {
			out = append(out, viol("C19", "created_despite_confirmation_mismatch", "register", o,
				fmt.Sprintf("an account was created although the password confirmation was %s", how), "how", how))
		} else {
			w.Stats.Reach["c19_confirmation_mismatch_rejected_"+how]++
		}
	}
	// policy clause: with a well-formed identifier and a matching confirmation
	// the password decides
	if st.str("wellformed") == "1" && !dup && !faulted {
		verdict := policyVerdict(cfg, pw)
		confirmOK := st.Fields["confirm_password"] == pw
		switch {
		case verdict == "unknown" || len(pw) > 72:
			w.Stats.Reach["c19_policy_undecided"]++
		case verdict == "ok" && confirmOK && len(added) == 0:
			out = append(out, viol("C19", "policy_rejected_conforming_password", "register", o,
				fmt.Sprintf("password %q meets every configured minimum (len>=%d upper>=%d lower>=%d num>=%d sym>=%d space=%v) but the registration was refused: %s",
					pw, cfg.PwMinLen, cfg.PwMinUpper, cfg.PwMinLower, cfg.PwMinNum, cfg.PwMinSym, cfg.PwAllowSpace, clip(o.Body, 200))))
		case verdict == "bad" && len(added) > 0:
			out = append(out, viol("C19", "policy_accepted_weak_password", "register", o,
				fmt.Sprintf("password %q misses a configured minimum (len>=%d upper>=%d lower>=%d num>=%d sym>=%d space=%v) but the account was created",
					pw, cfg.PwMinLen, cfg.PwMinUpper, cfg.PwMinLower, cfg.PwMinNum, cfg.PwMinSym, cfg.PwAllowSpace)))
		case verdict == "ok":
			w.Stats.Reach["c19_policy_ok_accepted"]++
		default:
			w.Stats.Reach["c19_policy_bad_rejected"]++
		}
	}
	return out
}

func (c *c19Oracle) Finish(w *World) []Violation { return nil }
