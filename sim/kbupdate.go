package sim

import (
	"strings"

	"github.com/volatiletech/authboss/v3"

	"golang.org/x/crypto/bcrypt"
)

// actingAcct is the account a 2FA / settings request acts on: the session
// user, else the pending second-factor login.
func (w *World) actingAcct(o *Obs) int {
	if uid := o.uidBefore(); uid != "" {
		return w.acctByPID(uid)
	}
	// the remember middleware may have authenticated the request
	if uid, ok := o.sessPut("uid"); ok && o.Step.Kind != "totp_validate" && o.Step.Kind != "sms_validate" {
		return w.acctByPID(uid)
	}
	for _, k := range []string{"totp_pending", "sms_pending"} {
		if strings.HasPrefix(o.Step.Kind, strings.TrimSuffix(k, "_pending")) {
			if p := o.SessBefore[k]; p != "" {
				return w.acctByPID(p)
			}
		}
	}
	return -1
}

func (w *World) supersede(kind string, acct, browser int, to string) {
	for _, s := range w.KB.Secrets {
		if s.Kind != kind || s.Status != "valid" {
			continue
		}
		if acct >= 0 && s.Acct != acct {
			continue
		}
		if browser >= 0 && s.Browser != browser {
			continue
		}
		s.Status = to
	}
}

func (w *World) revokeAll(kind string, acct int) {
	for _, s := range w.KB.Secrets {
		if kind == "rm" && s.Kind == kind && s.Acct == acct {
			s.BeforeChange = true
		}
		if s.Kind == kind && s.Acct == acct && (s.Status == "valid" || s.Status == "maybe") {
			s.Status = "revoked"
		}
	}
}

// pwMatches is the independent check of a candidate against a stored hash.
func pwMatches(hash, pw string) bool {
	// no password longer than 72 bytes can ever have been set (hash generation
	// refuses it), so no such value is anybody's password
	if hash == "" || len(pw) > 72 {
		return false
	}
	return bcrypt.CompareHashAndPassword([]byte(hash), []byte(pw)) == nil
}

// kbUpdate harvests the secrets the step revealed and advances secret
// statuses according to the property statements. It runs after the oracles
// have judged the step against the KB as it was when the request was sent.
func (w *World) kbUpdate(o *Obs) {
	st := o.Step
	kb := w.KB

	// new accounts: registration and OAuth2 sign-up
	for _, pid := range sortedRowKeys(o.RowsAfter) {
		row := o.RowsAfter[pid]
		if _, ok := o.RowsBefore[pid]; ok || w.acctByPID(pid) >= 0 {
			continue
		}
		a := &Acct{N: len(w.Accts), PID: pid, Email: row.Email, Phone: acctPhone(len(w.Accts)), OAuth: row.OAuth2UID != ""}
		w.Accts = append(w.Accts, a)
		if st.Kind == "register" {
			kb.setPassword(a.N, st.Fields["password"])
		}
	}

	for _, pid := range sortedRowKeys(o.RowsAfter) {
		before, after := o.RowsBefore[pid], o.RowsAfter[pid]
		if before == nil {
			continue
		}
		a := w.acctByPID(pid)
		if a < 0 {
			continue
		}
		if before.ConfirmSelector != after.ConfirmSelector && after.ConfirmSelector != "" {
			w.supersede("confirm", a, -1, "superseded")
		}
		if before.RecoverSelector != after.RecoverSelector && after.RecoverSelector != "" {
			w.supersede("recover", a, -1, "superseded")
		}
	}
	for _, m := range o.Mails {
		if m.Token == "" || len(m.To) == 0 {
			continue
		}
		switch m.Kind {
		case "confirm", "recover":
			a := w.acctByEmail(m.To[0])
			w.supersede(m.Kind, a, -1, "superseded")
			kb.addSecret(&Secret{Kind: m.Kind, Acct: a, Browser: -1, Value: m.Token, Issued: m.At})
		case "everify":
			a := w.acctByEmail(m.To[0])
			w.supersede("everify", -1, st.B, "superseded")
			kb.addSecret(&Secret{Kind: "everify", Acct: a, Browser: st.B, Value: m.Token, Issued: m.At})
		}
	}
	for _, s := range o.SMS {
		to := "superseded"
		if s.Fate != "delivered" || o.errorOutcome() {
			to = "maybe"
		}
		w.supersede("sms", -1, st.B, to)
		// whose code: the account the message was sent for - the login this
		// response parked, else the session's user (enrolment, resend), else
		// the login already parked in the session (resend on the validate page)
		owner := -1
		// (the response itself records for whom it sent the code)
		forPID, _ := o.sessPut("sms_secret_pid")
		if forPID == "" {
			forPID, _ = o.sessPut("sms_pending")
		}
		if forPID == "" {
			forPID = o.uidBefore()
		}
		if forPID == "" {
			forPID = o.SessBefore["sms_pending"]
		}
		if forPID != "" {
			owner = w.acctByPID(forPID)
		}
		kb.addSecret(&Secret{Kind: "sms", Acct: owner, Browser: st.B, Value: s.Code, Number: s.Number, Issued: s.At})
	}

	acting := w.actingAcct(o)
	if o.JSON != nil {
		if v, ok := o.JSON["otp"].(string); ok && v != "" && acting >= 0 {
			kb.addSecret(&Secret{Kind: "otp", Acct: acting, Browser: -1, Value: v})
		}
		if l, ok := o.JSON["recovery_codes"].([]interface{}); ok && acting >= 0 {
			w.supersede("recovery", acting, -1, "superseded")
			for _, c := range l {
				if cs, ok := c.(string); ok {
					kb.addSecret(&Secret{Kind: "recovery", Acct: acting, Browser: -1, Value: cs})
				}
			}
		}
	}
	if st.Kind == "otp_clear" && o.IsHTTP && acting >= 0 && !o.errorOutcome() && o.Status == 200 {
		if before, after := o.RowsBefore[w.Accts[acting].PID], o.RowsAfter[w.Accts[acting].PID]; before != nil && after != nil && after.OTPs == "" {
			w.supersede("otp", acting, -1, "superseded")
		}
	}

	// single-use secrets that were presented
	for i := range o.Presented {
		p := &o.Presented[i]
		s := p.Known
		if s == nil || (s.Status != "valid" && s.Status != "maybe") {
			continue
		}
		uidPut, hasUID := w.loginPut(o)
		switch {
		case p.Role == "otp" && st.Kind == "otp_login":
			if s.Acct != o.Acct || s.Acct < 0 {
				continue
			}
			pid := w.Accts[s.Acct].PID
			tp, _ := o.sessPut("totp_pending")
			sp, _ := o.sessPut("sms_pending")
			switch {
			case hasUID && uidPut == pid, tp == pid, sp == pid:
				s.Status = "spent"
			default:
				s.Status = "maybe"
			}
		case p.Role == "recovery":
			if s.Acct != acting || acting < 0 {
				continue
			}
			pid := w.Accts[acting].PID
			before, after := o.RowsBefore[pid], o.RowsAfter[pid]
			removed := before != nil && after != nil && (before.TOTPSecretKey != "" && after.TOTPSecretKey == "" || before.SMSPhone != "" && after.SMSPhone == "")
			switch {
			case hasUID && uidPut == pid && strings.HasSuffix(st.Kind, "_validate"), removed && strings.HasSuffix(st.Kind, "_remove"):
				s.Status = "spent"
			default:
				s.Status = "maybe"
			}
		case p.Role == "code" && s.Kind == "sms" && strings.HasPrefix(st.Kind, "sms_"):
			if s.Browser != st.B {
				continue
			}
			if acting < 0 {
				continue
			}
			pid := w.Accts[acting].PID
			before, after := o.RowsBefore[pid], o.RowsAfter[pid]
			changed := before != nil && after != nil && before.SMSPhone != after.SMSPhone
			if hasUID && uidPut == pid && st.Kind == "sms_validate" {
				s.Status = "spent"
			} else if changed {
				// used for enrolment / removal: the statements only bound
				// login uses
				s.Status = "maybe"
			}
		case p.Role == "token" && s.Kind == "confirm" && st.Kind == "confirm":
			if s.Acct < 0 {
				continue
			}
			pid := w.Accts[s.Acct].PID
			before, after := o.RowsBefore[pid], o.RowsAfter[pid]
			if before != nil && after != nil && !before.Confirmed && after.Confirmed {
				s.Status = "spent"
			} else if o.errorOutcome() || o.FaultFired != "" {
				s.Status = "maybe"
			}
		case p.Role == "token" && s.Kind == "recover" && st.Kind == "recover_end":
			if s.Acct < 0 {
				continue
			}
			pid := w.Accts[s.Acct].PID
			before, after := o.RowsBefore[pid], o.RowsAfter[pid]
			if before != nil && after != nil && before.Password != after.Password {
				s.Status = "spent"
			} else if o.errorOutcome() || o.FaultFired != "" {
				s.Status = "maybe"
			}
		case p.Role == "cookie" && s.Kind == "rm":
			if o.uidBefore() != "" || s.Acct < 0 {
				continue // cookie not consulted while a user is in the session
			}
			if w.Cfg.hasSetup("expire") || !w.Cfg.hasModule("remember") {
				continue
			}
			if raw, ok := hasPut(o.SessEvents, "uid"); ok && raw == w.Accts[s.Acct].PID {
				s.Status = "spent"
			} else {
				s.Status = "maybe"
			}
		case p.Role == "token" && s.Kind == "everify" && st.Kind == "everify_end":
			if v, ok := o.sessPut("twofactor_authed"); ok && v == "true" {
				s.Status = "spent"
			}
		case p.Role == "state" && st.Kind == "oauth2_callback":
			if s.Browser == st.B && o.SessBefore["oauth2_state"] == p.Value && st.str("nostate") == "" {
				if o.errorOutcome() {
					s.Status = "maybe"
				} else {
					s.Status = "spent"
				}
			}
		}
	}

	// password changes: belief follows the stored hash
	for _, pid := range sortedRowKeys(o.RowsAfter) {
		after := o.RowsAfter[pid]
		before := o.RowsBefore[pid]
		if before == nil || before.Password == after.Password {
			continue
		}
		a := w.acctByPID(pid)
		if a < 0 {
			continue
		}
		var cand string
		switch st.Kind {
		case "recover_end":
			cand = w.lastSec2
		case "op_update_password":
			cand = w.lastSec
		}
		if cand != "" && pwMatches(after.Password, cand) {
			kb.setPassword(a, cand)
		} else {
			kb.setPassword(a, "")
		}
		if o.FaultFired != "" || o.OpErr != "" || o.errorOutcome() {
			// the change was reported as failed: whether its side effects
			// (token revocation) happened is open
			for _, s := range kb.list("rm", a) {
				if s.Status == "valid" {
					s.Status = "maybe"
				}
			}
		} else {
			w.revokeAll("rm", a)
		}
	}
	if st.Kind == "op_delete" && o.Acct >= 0 && o.Acct < len(w.Accts) {
		for _, k := range []string{"rm", "otp", "recovery", "confirm", "recover"} {
			w.revokeAll(k, o.Acct)
		}
		delete(kb.Password, o.Acct)
	}

	// new remember cookie in the jar
	if v, put := hasPut(o.CookEvents, "rm"); o.IsHTTP && put && v != "" && o.CookAfter["rm"] == v && kb.find("rm", v) == nil {
		// whose cookie is it? a login that asked to be remembered issues it to
		// the account that logged in; otherwise it is the rotation of the
		// cookie the request presented
		a := w.acctByPID(o.uidAfter())
		nPut := 0
		for _, ev := range o.CookEvents {
			if ev.Kind == authboss.ClientStateEventPut && ev.Key == "rm" {
				nPut++
			}
		}
		rotated := false
		if ck := o.presented("cookie"); ck != nil && ck.Known != nil && ck.Known.Acct >= 0 && ck.Known.Acct < len(w.Accts) && o.uidBefore() == "" {
			// the middleware re-authenticated the cookie's account (its uid is the first one put)
			for _, ev := range o.SessEvents {
				if ev.Kind == authboss.ClientStateEventPut && ev.Key == "uid" {
					rotated = ev.Value == w.Accts[ck.Known.Acct].PID
					break
				}
			}
			if rotated && nPut < 2 {
				a = ck.Known.Acct // only the rotation issued a cookie
			}
		}
		if uid, ok := w.loginPut(o); ok && (st.RM || st.Kind == "oauth2_callback") && (!rotated || nPut >= 2) {
			a = w.acctByPID(uid)
		}
		kb.addSecret(&Secret{Kind: "rm", Acct: a, Browser: st.B, Value: v})
	}
	// new OAuth2 state in the session
	if v := o.SessAfter["oauth2_state"]; v != "" && v != o.SessBefore["oauth2_state"] && st.Kind == "oauth2_start" {
		w.supersede("state", -1, st.B, "superseded")
		kb.addSecret(&Secret{Kind: "state", Acct: -1, Browser: st.B, Value: v})
	}
	// session wiped: session-bound secrets die with it
	if o.SessBefore["oauth2_state"] != "" && o.SessAfter["oauth2_state"] == "" {
		for _, s := range kb.list("state", -1) {
			if s.Browser == st.B && s.Status == "valid" && s.Value == o.SessBefore["oauth2_state"] && st.Kind != "oauth2_callback" {
				s.Status = "superseded"
			}
		}
	}

	// enrolment state follows storage
	for _, a := range w.Accts {
		if row := o.RowsAfter[a.PID]; row != nil {
			kb.TOTPSecret[a.N] = row.TOTPSecretKey
			kb.SMSNumber[a.N] = row.SMSPhone
		} else {
			delete(kb.TOTPSecret, a.N)
			delete(kb.SMSNumber, a.N)
		}
	}
}

func sortedRowKeys(m map[string]*Row) []string {
	ks := make([]string, 0, len(m))
	for k := range m {
		ks = append(ks, k)
	}
	sortStrings(ks)
	return ks
}
