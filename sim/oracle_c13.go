package sim

import (
	"fmt"
	"strings"
)

// c13Oracle: only the fully authenticated owner, proving the factor, changes
// 2FA settings.
type c13Oracle struct {
	// authedOK[browser] = the twofactor_authed mark in this browser's session
	// was obtained by presenting the token mailed for this session
	authedOK map[int]int
	// pwOnly[browser] = the account whose identity this browser's session got
	// from a password (or one-time password) step alone although the account
	// has a second factor
	pwOnly map[int]string
	// cookieOnly[browser] = the account this browser's session names only
	// because a remember cookie said so (no handler has logged it in since)
	cookieOnly map[int]string
}

func newC13Oracle(w *World) Oracle {
	return &c13Oracle{authedOK: map[int]int{}, pwOnly: map[int]string{}, cookieOnly: map[int]string{}}
}

func splitCSV(s string) []string {
	if s == "" {
		return nil
	}
	return strings.Split(s, ",")
}

// oneRemoved reports whether after == before minus exactly one element.
func oneRemoved(before, after []string) bool {
	if len(after) != len(before)-1 {
		return false
	}
	m := map[string]int{}
	for _, x := range before {
		m[x]++
	}
	for _, x := range after {
		m[x]--
	}
	missing := 0
	for _, n := range m {
		if n < 0 {
			return false
		}
		missing += n
	}
	return missing == 1
}

func (c *c13Oracle) Check(w *World, o *Obs) []Violation {
	var out []Violation
	st := o.Step
	if !o.IsHTTP {
		if st.Kind == "drop_session" {
			delete(c.authedOK, st.B)
			delete(c.pwOnly, st.B)
			delete(c.cookieOnly, st.B)
		}
		return nil
	}
	cfg := &w.Cfg
	uid := o.uidBefore()
	full := uid != "" && o.SessBefore["halfauth"] == ""
	pwOnly := c.pwOnly[st.B]
	if pwOnly != uid {
		pwOnly = ""
	}
	cookieOnly := c.cookieOnly[st.B]
	if cookieOnly != uid {
		cookieOnly = ""
	}
	defer func() {
		after := o.uidAfter()
		_, byHandler := w.loginPut(o)
		if byHandler || after != c.cookieOnly[st.B] {
			delete(c.cookieOnly, st.B)
		}
		if !byHandler && o.uidBefore() == "" && after != "" && o.SessAfter["halfauth"] == "true" {
			c.cookieOnly[st.B] = after
		}
	}()
	defer func() {
		after := o.uidAfter()
		if put, ok := w.loginPut(o); ok && (st.Kind == "login" || st.Kind == "otp_login") {
			if row := o.RowsBefore[put]; row != nil && w.rowHasFactor(row) && put == after {
				c.pwOnly[st.B] = put
				return
			}
		}
		if _, put := o.sessPut("uid"); put || after != c.pwOnly[st.B] {
			delete(c.pwOnly, st.B)
		}
	}()

	// the e-mail authorisation mark
	if v, ok := o.sessPut("twofactor_authed"); ok && v == "true" {
		tok := o.presented("token")
		good := st.Kind == "everify_end" && tok != nil && tok.Known != nil && tok.Known.Kind == "everify" && tok.Known.Browser == st.B && usable(tok.Status) &&
			tok.Value != "" && full && tok.Known.Acct == w.acctByPID(uid)
		if good {
			c.authedOK[st.B] = tok.Known.Acct + 1
			w.Stats.Reach["c13_everify_ok"]++
		} else {
			why := "unknown_token"
			switch {
			case st.Kind != "everify_end":
				why = "other_route"
			case tok == nil || tok.Value == "":
				why = "empty_token"
			case tok.Known != nil && tok.Known.Browser != st.B:
				why = "other_session_token"
			case tok.Known != nil && !usable(tok.Status):
				why = tok.Status
			case tok.Known != nil && full && tok.Known.Acct != w.acctByPID(uid):
				why = "token_mailed_to_other_account"
			case !full:
				why = "not_fully_authed"
			}
			out = append(out, viol("C13", "authorisation_without_mailed_token", st.Kind, o,
				fmt.Sprintf("session of browser %d obtained the e-mail authorisation mark without presenting the token mailed for it (%s)", st.B, why), "why", why))
			c.authedOK[st.B] = 0
			if why == "token_mailed_to_other_account" {
				// the mark now in the session belongs to the other account
				c.authedOK[st.B] = tok.Known.Acct + 1
			}
		}
	}
	// with e-mail authorisation required, the enrolment routes must not be
	// served to a fully authenticated session that lacks it
	switch st.Kind {
	case "totp_setup", "totp_setup_get", "totp_confirm", "sms_setup", "sms_setup_get", "sms_confirm":
		ua := w.acctByPID(uid)
		authorised := o.SessBefore["twofactor_authed"] == "true" && c.authedOK[st.B] == ua+1
		if cfg.EmailAuth2FA && full && ua >= 0 && o.RowsBefore[uid] != nil && !authorised && o.FaultFired == "" && !o.errorOutcome() {
			sentToVerify := strings.Contains(o.Location, "/email/verify")
			_, putSecret := o.sessPut("totp_secret")
			_, putNumber := o.sessPut("sms_number")
			if !sentToVerify || putSecret || putNumber {
				why := "no_mark"
				if o.SessBefore["twofactor_authed"] == "true" {
					why = "mark_without_token"
					if c.authedOK[st.B] > 0 {
						why = "mark_of_other_account"
					}
				}
				out = append(out, viol("C13", "enrolment_route_served_without_email_auth", st.Kind, o,
					fmt.Sprintf("%s %s was served (status %d, location %q) to a session of %s that has not presented the token mailed to it (%s)", o.Method, o.Target, o.Status, o.Location, uid, why), "why", why))
			} else {
				w.Stats.Reach["c13_enrolment_route_gated"]++
			}
		}
	}

	// an injected failure after the enrolment was saved (the renderer, say)
	// ends the request with an error: what the response would have done to
	// the session is lost with it (C18 judges failed requests)
	failedAfterSave := o.FaultFired != "" && (o.errorOutcome() || o.Panic != "")
	for pid, after := range o.RowsAfter {
		before := o.RowsBefore[pid]
		if before == nil {
			continue
		}
		a := w.acctByPID(pid)
		owner := full && uid == pid
		emailOK := !cfg.EmailAuth2FA || (o.SessBefore["twofactor_authed"] == "true" && c.authedOK[st.B] == a+1)
		emailWhy := "no_mark"
		if o.SessBefore["twofactor_authed"] == "true" {
			emailWhy = "mark_without_token"
			if c.authedOK[st.B] > 0 {
				emailWhy = "mark_of_other_account"
			}
		}

		if pwOnly == pid && (before.TOTPSecretKey != after.TOTPSecretKey || before.SMSPhone != after.SMSPhone || before.RecoveryCodes != after.RecoveryCodes) {
			out = append(out, viol("C13", "changed_by_password_step_only", st.Kind, o,
				fmt.Sprintf("2FA settings of %s changed by a session that holds its identity from the password step alone (the second factor was never presented)", pid)))
		}
		if cookieOnly == pid && o.SessBefore["halfauth"] == "" && (before.TOTPSecretKey != after.TOTPSecretKey || before.SMSPhone != after.SMSPhone || before.RecoveryCodes != after.RecoveryCodes) {
			out = append(out, viol("C13", "changed_by_cookie_session", st.Kind, o,
				fmt.Sprintf("2FA settings of %s changed by a session that names it only through a remember cookie (no login has completed since; the half-auth mark is gone)", pid)))
		}
		if before.TOTPSecretKey != after.TOTPSecretKey {
			if after.TOTPSecretKey != "" {
				// enable / re-key
				code := o.presented("code")
				proof := st.Kind == "totp_confirm" && code != nil && totpVerdict(after.TOTPSecretKey, code.Value, o.Now) != "stale"
				switch {
				case !owner:
					out = append(out, viol("C13", "totp_enabled_by_non_owner", st.Kind, o, fmt.Sprintf("TOTP secret of %s changed by a session with uid=%q halfauth=%q", pid, uid, o.SessBefore["halfauth"])))
				case !proof:
					out = append(out, viol("C13", "totp_enabled_without_code", st.Kind, o, fmt.Sprintf("TOTP secret of %s enrolled without a valid code for the new secret", pid)))
				case !emailOK:
					out = append(out, viol("C13", "totp_enabled_without_email_auth", st.Kind, o, fmt.Sprintf("TOTP secret of %s enrolled without the e-mail authorisation of this session for this account (%s)", pid, emailWhy), "why", emailWhy))
				default:
					w.Stats.Reach["c13_totp_enabled"]++
					if cfg.EmailAuth2FA && o.SessAfter["twofactor_authed"] != "" && !failedAfterSave {
						out = append(out, viol("C13", "authorisation_not_spent", st.Kind, o, "completed TOTP enrolment left the e-mail authorisation mark in the session"))
					}
				}
			} else {
				code := o.presented("code")
				rc := o.presented("recovery")
				proof := st.Kind == "totp_remove" && (code != nil && totpVerdict(before.TOTPSecretKey, code.Value, o.Now) != "stale" ||
					rc != nil && rc.Known != nil && rc.Known.Kind == "recovery" && rc.Known.Acct == a && usable(rc.Status))
				switch {
				case !owner:
					out = append(out, viol("C13", "totp_disabled_by_non_owner", st.Kind, o, fmt.Sprintf("TOTP of %s disabled by a session with uid=%q halfauth=%q", pid, uid, o.SessBefore["halfauth"])))
				case !proof:
					out = append(out, viol("C13", "totp_disabled_without_code", st.Kind, o, fmt.Sprintf("TOTP of %s disabled without a current code or unused recovery code", pid)))
				default:
					w.Stats.Reach["c13_totp_disabled"]++
				}
			}
		}
		if before.SMSPhone != after.SMSPhone {
			code := o.presented("code")
			rc := o.presented("recovery")
			if after.SMSPhone != "" {
				proof := st.Kind == "sms_confirm" && code != nil && code.Known != nil && code.Known.Kind == "sms" && code.Known.Browser == st.B &&
					code.Known.Number == after.SMSPhone && code.Status != "superseded" && code.Status != "revoked"
				switch {
				case !owner:
					out = append(out, viol("C13", "sms_enabled_by_non_owner", st.Kind, o, fmt.Sprintf("SMS number of %s changed by a session with uid=%q halfauth=%q", pid, uid, o.SessBefore["halfauth"])))
				case !proof:
					sent := "never sent"
					if code != nil && code.Known != nil {
						sent = "sent to " + code.Known.Number + " (" + code.Status + ")"
					}
					out = append(out, viol("C13", "sms_enabled_without_code", st.Kind, o, fmt.Sprintf("SMS number %q of %s enrolled with a code that was %s", after.SMSPhone, pid, sent)))
				case !emailOK:
					out = append(out, viol("C13", "sms_enabled_without_email_auth", st.Kind, o, fmt.Sprintf("SMS number of %s enrolled without the e-mail authorisation of this session for this account (%s)", pid, emailWhy), "why", emailWhy))
				default:
					w.Stats.Reach["c13_sms_enabled"]++
					if cfg.EmailAuth2FA && o.SessAfter["twofactor_authed"] != "" && !failedAfterSave {
						out = append(out, viol("C13", "authorisation_not_spent", st.Kind, o, "completed SMS enrolment left the e-mail authorisation mark in the session"))
					}
				}
			} else {
				// lenient reading for disabling: the code this session currently
				// expects, delivered by the gateway (see DESIGN §13)
				proof := st.Kind == "sms_remove" && (code != nil && code.Known != nil && code.Known.Kind == "sms" && code.Known.Browser == st.B && code.Status != "superseded" ||
					rc != nil && rc.Known != nil && rc.Known.Kind == "recovery" && rc.Known.Acct == a && usable(rc.Status))
				switch {
				case !owner:
					out = append(out, viol("C13", "sms_disabled_by_non_owner", st.Kind, o, fmt.Sprintf("SMS 2FA of %s disabled by a session with uid=%q halfauth=%q", pid, uid, o.SessBefore["halfauth"])))
				case !proof:
					out = append(out, viol("C13", "sms_disabled_without_code", st.Kind, o, fmt.Sprintf("SMS 2FA of %s disabled without a current code or unused recovery code", pid)))
				default:
					w.Stats.Reach["c13_sms_disabled"]++
					if code != nil && code.Known != nil && code.Known.Number != before.SMSPhone {
						w.Stats.Reach["c13_obs_sms_disabled_with_code_to_other_number"]++
					}
				}
			}
		}
		if before.RecoveryCodes != after.RecoveryCodes {
			enabling := (before.TOTPSecretKey != after.TOTPSecretKey && after.TOTPSecretKey != "") || (before.SMSPhone != after.SMSPhone && after.SMSPhone != "")
			// re-enrolment of the same number / secret by the owner with a
			// valid proof also hands out a fresh set of codes
			// (whether the e-mail authorisation was there is judged by the
			// clauses above; here only: was it an enrolment with a valid proof)
			if !enabling && owner {
				code := o.presented("code")
				switch st.Kind {
				case "sms_confirm":
					enabling = code != nil && code.Known != nil && code.Known.Kind == "sms" && code.Known.Browser == st.B && code.Known.Number == after.SMSPhone && code.Status != "superseded"
				case "totp_confirm":
					enabling = code != nil && after.TOTPSecretKey != "" && totpVerdict(after.TOTPSecretKey, code.Value, o.Now) != "stale"
				}
			}
			rc := o.presented("recovery")
			consumed := rc != nil && rc.Known != nil && rc.Known.Kind == "recovery" && rc.Known.Acct == a && usable(rc.Status) &&
				oneRemoved(splitCSV(before.RecoveryCodes), splitCSV(after.RecoveryCodes)) &&
				(strings.HasSuffix(st.Kind, "_validate") || strings.HasSuffix(st.Kind, "_remove"))
			switch {
			case enabling:
			case consumed:
				w.Stats.Reach["c13_recovery_code_consumed"]++
			case st.Kind == "recovery_regen" && owner:
				w.Stats.Reach["c13_recovery_regenerated"]++
			default:
				out = append(out, viol("C13", "recovery_codes_changed", st.Kind, o,
					fmt.Sprintf("recovery codes of %s changed by %s from a session with uid=%q halfauth=%q", pid, st.Kind, uid, o.SessBefore["halfauth"])))
			}
		}
	}
	if o.SessAfter["twofactor_authed"] == "" {
		delete(c.authedOK, st.B)
	}
	return out
}

func (c *c13Oracle) Finish(w *World) []Violation { return nil }
