package sim

import (
	"fmt"
	"net/url"
	"path"
	"strings"
	"time"
)

// --- C08: the access middleware admits exactly when requirements are met --------

type c08Oracle struct{}

func newC08Oracle(w *World) Oracle { return &c08Oracle{} }

func (c *c08Oracle) Check(w *World, o *Obs) []Violation {
	var out []Violation
	st := o.Step
	// /probe/mw/...     - MountedMiddleware2(reqs, mode, mount-pathed)
	// /probe/legacy/... - the older boolean wrappers Middleware / MountedMiddleware
	//                     (full-auth and 2FA flags = the requirement bits, redirect flag = mode 1, else 404)
	if !o.IsHTTP || st.Kind != "probe" {
		return nil
	}
	api := ""
	for _, a := range []string{"mw", "legacy", "chain"} {
		if strings.HasPrefix(st.str("path"), "/probe/"+a+"/") {
			api = a
		}
	}
	if api == "" {
		return nil
	}
	parts := strings.SplitN(strings.TrimPrefix(st.str("path"), "/probe/"+api+"/"), "/", 4)
	if len(parts) < 4 {
		return nil
	}
	var reqs, mode int
	fmt.Sscanf(parts[0], "%d", &reqs)
	fmt.Sscanf(parts[1], "%d", &mode)
	mp := parts[2] == "1"
	if api == "legacy" {
		w.Stats.Reach["c08_legacy_wrapper"]++
	}
	if api == "chain" {
		w.Stats.Reach["c08_user_loaded_by_outer_middleware"]++
	}
	if o.Method != "GET" {
		w.Stats.Reach["c08_method_other_than_get"]++
	}
	uid := o.uidBefore()
	half := o.SessBefore["halfauth"] != ""
	twofa := o.SessBefore["twofactor"] != ""
	if ck := o.presented("cookie"); ck != nil && uid == "" && w.rememberActive() {
		// the remember middleware authenticates inside this very request: a
		// usable cookie makes its account the (half-authenticated) user
		switch {
		case ck.Known != nil && ck.Status == "valid" && ck.Known.Acct >= 0 && ck.Known.Acct < len(w.Accts) && o.FaultFired == "":
			uid, half = w.Accts[ck.Known.Acct].PID, true
			w.Stats.Reach["c08_cookie_authenticated_request"]++
		case ck.Known == nil || ck.Status == "spent" || ck.Status == "revoked" || ck.Status == "superseded":
			// dead cookie: anonymous
		default:
			return nil
		}
	}
	reqsMet := (reqs&1 == 0 || !half) && (reqs&2 == 0 || twofa)
	storage := "ok"
	if o.FaultFired == "db.Load" {
		storage = st.Fault.Kind
		if storage != "notfound" {
			storage = "err"
		}
	} else if o.FaultFired != "" {
		return nil
	}
	loadable := uid != "" && o.RowsBefore[uid] != nil && storage == "ok"
	ran := o.Probe != nil && o.Probe.Ran

	refusalOK := func() (bool, string) {
		switch mode {
		case 0:
			return o.Status == 404, fmt.Sprintf("want 404, got %d", o.Status)
		case 2:
			return o.Status == 401, fmt.Sprintf("want 401, got %d", o.Status)
		}
		// redirect to <mount>/login?redir=<original path and query>
		loc := o.Location
		lu, err := url.Parse(loc)
		if err != nil {
			return false, fmt.Sprintf("unparsable Location %q", loc)
		}
		if o.Status != 302 && o.Status != 307 {
			return false, fmt.Sprintf("want a redirect, got %d", o.Status)
		}
		if lu.Path != path.Join(w.Cfg.Mount, "/login") || lu.Host != "" {
			return false, fmt.Sprintf("redirect goes to %q, want the login page %q", loc, path.Join(w.Cfg.Mount, "/login"))
		}
		redir := lu.Query().Get("redir")
		// after login the browser is sent to this string: parse it the way
		// the browser will
		ru, err := url.Parse(redir)
		if err != nil {
			return false, fmt.Sprintf("redir %q does not parse", redir)
		}
		wantPath := st.str("path")
		if mp && w.Cfg.Mount != "" {
			wantPath = w.Cfg.Mount + wantPath
		}
		if ru.Path != wantPath || ru.RawQuery != st.str("rawquery") || ru.Fragment != "" || ru.Host != "" {
			return false, fmt.Sprintf("redir %q resolves to path %q query %q fragment %q; original was path %q query %q", redir, ru.Path, ru.RawQuery, ru.Fragment, wantPath, st.str("rawquery"))
		}
		// the same resource: the same segments (a delimiter that was encoded
		// inside a segment must not come back as a separator, or the reverse)
		wantEsc := (&url.URL{Path: wantPath}).EscapedPath()
		if rp := st.str("rawpath"); rp != "" {
			wantEsc = rp
			if mp && w.Cfg.Mount != "" {
				wantEsc = (&url.URL{Path: w.Cfg.Mount}).EscapedPath() + rp
			}
		}
		if !sameSegments(ru.EscapedPath(), wantEsc) {
			return false, fmt.Sprintf("redir %q names the segments of %q; the request was for %q", redir, ru.EscapedPath(), wantEsc)
		}
		return true, ""
	}
	site := fmt.Sprintf("%s/%d/%d/%v", api, reqs, mode, mp)
	class := pathClass(st.str("path"), st.str("rawquery"))
	switch {
	case uid == "" || !reqsMet || (storage == "notfound") || (storage == "ok" && !loadable):
		// refusal expected (if storage errs while requirements are unmet, 500 is accepted too)
		if ran {
			out = append(out, viol("C08", "handler_ran", site, o,
				fmt.Sprintf("handler ran although uid=%q loadable=%v halfauth=%v twofactor=%v reqs=%d storage=%s", uid, loadable, half, twofa, reqs, storage)))
			break
		}
		// a session that names a user but misses a requirement may meet the
		// storage error first; a session that names nobody has nothing to load
		if storage == "err" && o.Status == 500 && uid != "" {
			w.Stats.Reach["c08_refused_or_500"]++
			break
		}
		if ok, why := refusalOK(); !ok {
			out = append(out, viol("C08", "wrong_refusal", fmt.Sprintf("mode%d", mode), o,
				fmt.Sprintf("refusal is not the configured one: %s (uid=%q reqs=%d)", why, uid, reqs), "class", class))
		} else {
			w.Stats.Reach[fmt.Sprintf("c08_refused_mode%d", mode)]++
			if mode == 1 {
				w.Stats.Reach["c08_redirect_target_ok_"+class]++
			}
		}
	case storage == "err":
		if ran || o.Status != 500 {
			out = append(out, viol("C08", "storage_error_not_500", site, o, fmt.Sprintf("storage error with requirements met: ran=%v status=%d", ran, o.Status)))
		} else {
			w.Stats.Reach["c08_storage_error_500"]++
		}
	default:
		if !ran || o.Status != 200 {
			out = append(out, viol("C08", "handler_not_run", site, o,
				fmt.Sprintf("requirements met (uid=%q halfauth=%v twofactor=%v reqs=%d) but handler ran=%v status=%d", uid, half, twofa, reqs, ran, o.Status)))
		} else {
			w.Stats.Reach["c08_admitted"]++
			w.Stats.Reach[fmt.Sprintf("c08_admitted_reqs%d", reqs)]++
		}
	}
	return out
}

func pathClass(p, q string) string {
	switch {
	case strings.ContainsAny(p, "?#"):
		return "path_with_query_or_fragment_char"
	case strings.Contains(p, "%"):
		return "path_with_percent"
	case strings.ContainsAny(p, " +&=;") || !isASCII(p):
		return "path_special"
	case q != "":
		return "with_query"
	}
	return "plain"
}

func isASCII(s string) bool {
	for i := 0; i < len(s); i++ {
		if s[i] >= 0x80 {
			return false
		}
	}
	return true
}

func (c *c08Oracle) Finish(w *World) []Violation { return nil }

// c08Gen reaches session states through real flows, then sweeps the whole
// (requirements x refusal mode x mount-pathed) table for each.
type c08Gen struct {
	r     *Rng
	queue []Step
	nSt   int
	max   int
}

// sameSegments: two escaped paths name the same resource when they have the
// same number of segments and each pair decodes to the same string.
func sameSegments(a, b string) bool {
	as, bs := strings.Split(a, "/"), strings.Split(b, "/")
	if len(as) != len(bs) {
		return false
	}
	for i := range as {
		x, err1 := url.PathUnescape(as[i])
		y, err2 := url.PathUnescape(bs[i])
		if err1 != nil || err2 != nil || x != y {
			return false
		}
	}
	return true
}

var pathSegs = []string{"a", "Reports", "x y", "50%", "a&b", "k=v", "a+b", "ü", "日本", "semi;colon", "q?x", "frag#1", "%41", "..a", "~u", "@", "!", "(1)", "*", ","}
var rawQueries = []string{"", "", "x=1", "a=b&c=d", "q=hello%20world", "q=a+b", "redir=%2Fevil", "k=%26%3D", "empty=", "flag", "a=1&a=2", "u=%C3%BC", "x=1;y=2",
	"next=https://example.com/cb", "file=/docs/../secret/report", "dir=/home/me/", "a=//b", "p=./x", "t=/"}

func (g *c08Gen) sweep(w *World, b int) []Step {
	var out []Step
	for reqs := 0; reqs < 4; reqs++ {
		for mode := 0; mode < 3; mode++ {
			for mpi := 0; mpi < 2; mpi++ {
				n := 1 + g.r.Intn(3)
				var segs []string
				for i := 0; i < n; i++ {
					segs = append(segs, pathSegs[g.r.Intn(len(pathSegs))])
				}
				p := fmt.Sprintf("/probe/mw/%d/%d/%d/%s", reqs, mode, mpi, strings.Join(segs, "/"))
				if mpi == 0 && g.r.Chance(1, 6) {
					p += "/"
				}
				st := Step{Kind: "probe", B: b, A: -1, Str: map[string]string{"path": p, "rawquery": rawQueries[g.r.Intn(len(rawQueries))]}}
				if g.r.Chance(1, 5) {
					st.Fault = &FaultDirective{Site: "db.Load", Index: 0, Kind: []string{"err", "notfound"}[g.r.Intn(2)]}
				}
				if g.r.Chance(1, 4) {
					st.Str["method"] = []string{"HEAD", "POST", "PUT", "DELETE", "OPTIONS", "OPTIONS"}[g.r.Intn(6)]
				}
				if g.r.Chance(1, 5) {
					// a header the guard has no business acting on (a CORS
					// preflight, a prefetch, a method override, ...)
					st.Str["hdr"] = oddHeaders[g.r.Intn(len(oddHeaders))]
					if st.Str["method"] == "OPTIONS" {
						st.Str["hdr"] = "Access-Control-Request-Method: POST"
					}
				}
				out = append(out, st)
				if mode == 1 && g.r.Chance(1, 2) {
					// twins: two different resources whose spellings differ only
					// in whether a delimiter is encoded, behind the same guard
					base := fmt.Sprintf("/probe/mw/%d/%d/%d/%s", reqs, mode, mpi, segs[0])
					besc := (&url.URL{Path: base}).EscapedPath()
					switch g.r.Intn(3) {
					case 0:
						out = append(out, Step{Kind: "probe", B: b, A: -1, Str: map[string]string{"path": base + "/a/b", "rawpath": besc + "/a%2Fb"}},
							Step{Kind: "probe", B: b, A: -1, Str: map[string]string{"path": base + "/a/b"}})
					case 1:
						out = append(out, Step{Kind: "probe", B: b, A: -1, Str: map[string]string{"path": base + "/what?draft"}},
							Step{Kind: "probe", B: b, A: -1, Str: map[string]string{"path": base + "/what", "rawquery": "draft"}})
					default:
						out = append(out, Step{Kind: "probe", B: b, A: -1, Str: map[string]string{"path": base + "/x y", "rawquery": "v=1"}},
							Step{Kind: "probe", B: b, A: -1, Str: map[string]string{"path": base + "/x y", "rawquery": "v=2"}})
					}
				}
				if g.r.Chance(1, 3) {
					// the same row with the current user already loaded by an outer middleware
					cp := fmt.Sprintf("/probe/chain/%d/%d/%d/%s", reqs, mode, mpi, strings.Join(segs, "/"))
					out = append(out, Step{Kind: "probe", B: b, A: -1, Str: map[string]string{"path": cp, "rawquery": rawQueries[g.r.Intn(len(rawQueries))]}})
				}
				if mode < 2 && g.r.Chance(1, 2) {
					// the same row through the older boolean wrappers
					lp := fmt.Sprintf("/probe/legacy/%d/%d/%d/%s", reqs, mode, mpi, strings.Join(segs, "/"))
					lst := Step{Kind: "probe", B: b, A: -1, Str: map[string]string{"path": lp, "rawquery": rawQueries[g.r.Intn(len(rawQueries))]}}
					out = append(out, lst)
				}
			}
		}
	}
	// shuffle so that minimisation is not biased by table order
	p := g.r.Perm(len(out))
	sh := make([]Step, len(out))
	for i, j := range p {
		sh[i] = out[j]
	}
	return sh
}

func (g *c08Gen) Next(w *World, n int) *Step {
	if len(g.queue) == 0 {
		if g.nSt >= g.max {
			return nil
		}
		g.nSt++
		b := g.r.Intn(len(w.Browsers))
		a := g.r.Intn(len(w.Accts))
		pw := &SecretRef{Kind: "password", A: a}
		var reach []Step
		states := []string{"anon", "login", "login", "halfauth", "twofa", "pending", "deleted", "halfauth_twofa", "cookie_only", "cookie_only"}
		state := states[g.r.Intn(len(states))]
		switch state {
		case "anon":
			reach = []Step{{Kind: "logout", B: b}}
		case "login":
			reach = []Step{{Kind: "login", B: b, A: a, Sec: pw}}
		case "halfauth":
			if w.Cfg.hasModule("remember") {
				reach = []Step{{Kind: "login", B: b, A: a, Sec: pw, RM: true}, {Kind: "drop_session", B: b}, {Kind: "probe", B: b, Str: map[string]string{"path": "/probe/open"}}}
			}
		case "twofa", "pending", "halfauth_twofa":
			// find an account with a factor
			for i := range w.Accts {
				if w.KB.TOTPSecret[i] != "" {
					a = i
				}
			}
			pw = &SecretRef{Kind: "password", A: a}
			reach = []Step{{Kind: "logout", B: b}, {Kind: "login", B: b, A: a, Sec: pw}}
			if w.KB.TOTPSecret[a] != "" && (g.r.Chance(2, 3) || state == "halfauth_twofa") {
				reach = append(reach, Step{Kind: "totp_validate", B: b, A: a, Sec: &SecretRef{Kind: "totp", A: a}})
			}
			if state == "halfauth_twofa" {
				// the statement quantifies over every combination of marks: this
				// one is put together by hand (the flows clear the half-auth
				// mark when the second factor is completed)
				reach = append(reach, Step{Kind: "app_session_put", B: b, Str: map[string]string{"key": "halfauth", "val": "true"}})
			}
		case "deleted":
			reach = []Step{{Kind: "login", B: b, A: a, Sec: pw}, {Kind: "op_delete", B: b, A: a}}
		case "cookie_only":
			// every probe is the first request the remember cookie authenticates
			if w.Cfg.hasModule("remember") {
				reach = []Step{{Kind: "login", B: b, A: a, Sec: pw, RM: true}}
				sw := g.sweep(w, b)
				for i := 0; i < 8 && i < len(sw); i++ {
					sw[i].Fault = nil
					reach = append(reach, Step{Kind: "drop_session", B: b}, sw[i])
				}
				g.queue = reach
				st := g.queue[0]
				g.queue = g.queue[1:]
				return &st
			}
		}
		g.queue = append(reach, g.sweep(w, b)...)
	}
	st := g.queue[0]
	g.queue = g.queue[1:]
	return &st
}

// --- C09: idle expiry -------------------------------------------------------------

type c09Oracle struct {
	last  map[int]time.Time // browser -> last activity of its authenticated session
	kinds map[int]string    // browser -> step kind that logged it in
	wasOn bool              // the expire module was deployed at the previous request
	// mangled: the store has damaged this browser's activity stamp; such a
	// session need not be served any more, but it must still not outlive
	// its idle period
	mangled map[int]bool
}

func newC09Oracle(w *World) Oracle {
	return &c09Oracle{last: map[int]time.Time{}, kinds: map[int]string{}, mangled: map[int]bool{}}
}

func (c *c09Oracle) Check(w *World, o *Obs) []Violation {
	var out []Violation
	st := o.Step
	if !o.IsHTTP {
		if st.Kind == "drop_session" {
			delete(c.last, st.B)
			delete(c.mangled, st.B)
		}
		if st.Kind == "mangle_stamp" {
			c.mangled[st.B] = true
		}
		return nil
	}
	if !w.expireOn {
		// the expire module is not deployed yet (Config.ExpireLate)
		c.wasOn = false
		return nil
	}
	if !c.wasOn {
		// deployed just now: no session carries an activity stamp, so nothing
		// is known about its idle time until it is seen once
		c.wasOn = true
		if w.Cfg.ExpireLate {
			c.last = map[int]time.Time{}
			w.Stats.Reach["c09_expire_deployed_late"]++
		}
	}
	E := w.Cfg.ExpireAfter
	wl := map[string]bool{}
	for _, k := range w.Cfg.Whitelist {
		wl[k] = true
	}
	uid := o.uidBefore()
	if uid != "" {
		last, known := c.last[st.B]
		gap := o.Now.Sub(last)
		verdict := "either"
		if known {
			switch {
			case gap > E:
				verdict = "expired"
			case gap <= E-time.Second || (gap < E && w.Cfg.WholeSecondClock):
				verdict = "live"
			}
		}
		if verdict == "live" && c.mangled[st.B] {
			verdict = "either"
			w.Stats.Reach["c09_live_request_with_damaged_stamp"]++
		}
		isProbe := st.Kind == "probe" && st.str("path") == "/probe/open" && o.Probe != nil
		switch verdict {
		case "expired":
			w.Stats.Reach["c09_expired_request"]++
			if isProbe {
				if o.Probe.UserID != "" || o.Probe.UserErr == "" {
					out = append(out, viol("C09", "expired_session_served_as_authenticated", "downstream", o,
						fmt.Sprintf("idle for %s (> ExpireAfter %s) yet the downstream handler saw user %q", gap, E, o.Probe.UserID), "login", c.loginKind(st.B)))
				}
				for k := range o.Probe.Session {
					if !wl[k] {
						out = append(out, viol("C09", "expired_session_value_visible", "downstream", o,
							fmt.Sprintf("idle for %s (> %s) yet downstream could read non-whitelisted session key %q", gap, E, k), "key", k))
					}
				}
				for k := range wl {
					if v, ok := o.SessBefore[k]; ok && o.Probe.Session[k] != v {
						out = append(out, viol("C09", "whitelisted_value_hidden", "downstream", o, fmt.Sprintf("whitelisted key %q not visible downstream on an expired request", k)))
					}
				}
			}
			if o.Status > 0 && len(o.Writes) > 0 || isProbe {
				for k := range o.SessAfter {
					if !wl[k] && k != "flash_success" && k != "flash_error" {
						// keys the response itself put after the wipe are the response's business
						if _, put := o.sessPut(k); put {
							continue
						}
						out = append(out, viol("C09", "expired_session_not_wiped", "jar", o,
							fmt.Sprintf("idle for %s (> %s) yet session key %q survives the response", gap, E, k), "key", k, "login", c.loginKind(st.B)))
					}
				}
				for k := range wl {
					if v, ok := o.SessBefore[k]; ok && o.SessAfter[k] != v {
						if _, put := o.sessPut(k); !put {
							out = append(out, viol("C09", "whitelisted_value_lost", "jar", o, fmt.Sprintf("whitelisted key %q lost on expiry", k)))
						}
					}
				}
			}
		case "live":
			w.Stats.Reach["c09_live_request"]++
			if isProbe && o.Probe.UserID != uid {
				out = append(out, viol("C09", "live_session_not_served", "downstream", o,
					fmt.Sprintf("idle for only %s (ExpireAfter %s) yet downstream saw user %q instead of %q", gap, E, o.Probe.UserID, uid)))
			}
			if o.uidAfter() == "" && st.Kind != "logout" && !(st.Kind == "replay" && strings.HasSuffix(o.Target, "/logout")) {
				out = append(out, viol("C09", "live_session_wiped", "jar", o, fmt.Sprintf("idle for only %s (ExpireAfter %s) yet the session lost its user", gap, E)))
			}
		}
	}
	// a successful login must leave an authenticated session, also when the
	// request itself arrived on an expired session
	if st.Kind == "login" && o.FaultFired == "" && !c.mangled[st.B] {
		pid := w.pidOf(st.A, st)
		row := o.RowsBefore[pid]
		if p := o.presented("password"); p != nil && p.Status == "valid" && row != nil && !w.rowHasFactor(row) && (!w.Cfg.hasModule("confirm") || row.Confirmed) &&
			!(w.Cfg.hasModule("lock") && !row.Locked.Before(o.Now)) {
			if o.uidAfter() != pid {
				out = append(out, viol("C09", "login_lost", "login", o,
					fmt.Sprintf("a correct login of %s (session before: uid=%q) ended without an authenticated session (uid after %q)", pid, uid, o.uidAfter()), "had_uid", fmt.Sprint(uid != "")))
			} else if uid != "" {
				w.Stats.Reach["c09_relogin_over_existing_session"]++
			}
		}
	}
	// activity bookkeeping: login starts the clock, live requests push it
	if after := o.uidAfter(); after != "" {
		if _, byHandler := w.loginPut(o); !byHandler && uid == "" && o.SessAfter["halfauth"] == "true" {
			// the remember middleware (outside the expire middleware) has just
			// logged the browser in: whether that already counts as activity
			// is left open, the clock is known from the next request on
			delete(c.last, st.B)
			c.kind(st.B, "remember_cookie")
			w.Stats.Reach["c09_login_by_remember_cookie"]++
		} else if _, put := o.sessPut("uid"); put || uid == "" {
			delete(c.mangled, st.B)
			c.last[st.B] = o.Now
			c.kind(st.B, st.Kind)
			w.Stats.Reach["c09_login_"+st.Kind]++
		} else {
			// the deadline moves only if the response actually delivered
			// session state (a silently failed request delivers nothing) -
			// or if the request was visibly served as authenticated: "a
			// request arriving sooner is served as authenticated and pushes
			// the deadline forward"
			for _, wr := range o.Writes {
				if wr.Kind == "session" {
					c.last[st.B] = o.Now
					break
				}
			}
			if st.Kind == "probe" && o.Probe != nil && o.Probe.Ran && o.Probe.UserID == uid && o.Status == 200 {
				if _, known := c.last[st.B]; !known {
					w.Stats.Reach["c09_unstamped_session_seen"]++
				}
				c.last[st.B] = o.Now
			}
		}
	} else {
		delete(c.last, st.B)
	}
	return out
}

func (c *c09Oracle) kind(b int, k string) { c.kinds[b] = k }
func (c *c09Oracle) loginKind(b int) string {
	if k, ok := c.kinds[b]; ok {
		return k
	}
	return "unknown"
}

func (c *c09Oracle) Finish(w *World) []Violation { return nil }

// --- C10: logout leaves nothing behind ------------------------------------------------

type c10Oracle struct {
	justLoggedOut map[int]bool
}

func newC10Oracle(w *World) Oracle { return &c10Oracle{justLoggedOut: map[int]bool{}} }

func sessionStateClass(s map[string]string) string {
	var parts []string
	has := func(k string) bool { return s[k] != "" }
	if has("uid") {
		parts = append(parts, "uid")
	}
	if has("halfauth") {
		parts = append(parts, "half")
	}
	if has("twofactor") {
		parts = append(parts, "2fa")
	}
	if has("totp_pending") || has("sms_pending") {
		parts = append(parts, "pending")
	}
	if has("totp_secret") || has("sms_number") || has("sms_secret") {
		parts = append(parts, "setup")
	}
	if has("twofactor_auth_token") || has("twofactor_authed") {
		parts = append(parts, "everify")
	}
	if has("oauth2_state") {
		parts = append(parts, "oauth2")
	}
	if len(parts) == 0 {
		return "anon"
	}
	return strings.Join(parts, "+")
}

func (c *c10Oracle) Check(w *World, o *Obs) []Violation {
	var out []Violation
	st := o.Step
	if !o.IsHTTP {
		delete(c.justLoggedOut, st.B)
		return nil
	}
	isLogoutPath := strings.HasSuffix(o.Target, "/logout") && (st.Kind == "logout" || st.Kind == "replay")
	wl := map[string]bool{}
	for _, k := range w.Cfg.Whitelist {
		wl[k] = true
	}
	if was := c.justLoggedOut[st.B]; was && st.Kind == "probe" && strings.HasPrefix(st.str("path"), "/probe/mw/") {
		if o.Probe != nil && o.Probe.Ran {
			out = append(out, viol("C10", "authenticated_after_logout", "next_request", o, fmt.Sprintf("the request following a logout reached a protected handler as %q", o.Probe.UserID)))
		} else {
			w.Stats.Reach["c10_next_request_refused"]++
		}
	}
	delete(c.justLoggedOut, st.B)
	if !isLogoutPath {
		return out
	}
	cookieAuth := o.presented("cookie") != nil && o.uidBefore() == "" && w.rememberActive()
	if o.Method == w.Cfg.LogoutMethod {
		if o.FaultFired != "" {
			return out
		}
		if o.errorOutcome() {
			// nothing was injected: the library itself turned the logout into an error
			out = append(out, viol("C10", "logout_failed", "logout", o,
				fmt.Sprintf("the logout request ended with an error outcome (status %d, %v) and left the session as it was", o.Status, o.HandlerErrs)))
			return out
		}
		class := sessionStateClass(o.SessBefore)
		w.Stats.Reach["c10_logout_from_"+class]++
		// "no user identity, no half-auth": what makes the browser somebody
		// does not survive a logout even when an application whitelists it
		identity := map[string]bool{"uid": true, "halfauth": true, "last_action": true}
		for k := range identity {
			if wl[k] {
				w.Stats.Reach["c10_identity_key_whitelisted"]++
			}
			delete(wl, k)
		}
		for k, v := range o.SessAfter {
			if wl[k] {
				continue
			}
			if k == "flash_success" || k == "flash_error" {
				continue
			}
			out = append(out, viol("C10", "session_value_survives", "logout", o,
				fmt.Sprintf("after logout the session still holds %q=%q (state before: %s)", k, clip(v, 40), class), "key", k))
		}
		for k := range wl {
			if v, ok := o.SessBefore[k]; ok && o.SessAfter[k] != v {
				out = append(out, viol("C10", "whitelisted_value_lost", "logout", o, fmt.Sprintf("logout removed whitelisted key %q", k)))
			} else if ok {
				w.Stats.Reach["c10_whitelisted_kept"]++
			}
		}
		if v := o.CookAfter["rm"]; v != "" {
			out = append(out, viol("C10", "remember_cookie_survives", "logout", o, "after logout the remember-me cookie is still in the cookie jar"))
		} else if o.CookBefore["rm"] != "" {
			w.Stats.Reach["c10_cookie_removed"]++
		}
		c.justLoggedOut[st.B] = true
	} else if !cookieAuth {
		// another method: nothing may change (an expired session may still be wiped by the expiry middleware)
		expiredWipe := w.Cfg.hasSetup("expire") && o.uidBefore() != "" && o.uidAfter() == ""
		if !expiredWipe && (canonMap(stripVolatile(o.SessBefore)) != canonMap(stripVolatile(o.SessAfter)) || canonMap(o.CookBefore) != canonMap(o.CookAfter)) {
			out = append(out, viol("C10", "wrong_method_changed_state", "logout", o,
				fmt.Sprintf("%s %s (configured method %s) changed client state: %s -> %s", o.Method, o.Target, w.Cfg.LogoutMethod, canonMap(o.SessBefore), canonMap(o.SessAfter))))
		} else {
			w.Stats.Reach["c10_wrong_method_ignored"]++
		}
	}
	return out
}

// stripVolatile removes the idle-clock key, which every authenticated request
// refreshes when the expiry middleware is installed.
func stripVolatile(m map[string]string) map[string]string {
	c := copyMap(m)
	delete(c, "last_action")
	return c
}

func (c *c10Oracle) Finish(w *World) []Violation { return nil }
