package sim

import (
	"encoding/json"
	"fmt"
	"sort"
	"testing"
	"testing/synctest"
)

// C01, overlapping credential checks: "a session only against a valid
// credential of that user" also while another request for the same account is
// being checked. Several browsers post the login form for ONE account at the
// same time, each with its own password (the right one, a wrong one, another
// account's); the concurrent scheduler decides at every seam - each storage
// call, the password comparison, each client-state read and write - who
// proceeds. Afterwards a browser holds a session exactly if the password it
// sent is the account's.

type c01ConcExtra struct {
	Creds []string `json:"creds"` // per racer (browser 1..n): right | wrong | other | empty
}

func c01ConcGenerate(seed uint64, tier string) Plan {
	r := NewRng(seed ^ 0xc01c01)
	cfg := baseConfig(r.Fork(1))
	cfg.dropSetups("expire", "totp", "sms")
	cfg.ensureModules("auth")
	cfg.dropModules("lock", "confirm")
	cfg.EmailAuth2FA = false
	cfg.AppAuthHook = false
	n := 2 + r.Intn(3)
	cfg.NBrowsers = n + 1
	cfg.NAccounts = 2
	cfg.Accounts = []AcctSpec{{Confirmed: true}, {Confirmed: true}}
	ex := c01ConcExtra{}
	kinds := []string{"right", "wrong", "wrong", "other", "empty"}
	for k := 0; k < n; k++ {
		ex.Creds = append(ex.Creds, kinds[r.Intn(len(kinds))])
	}
	// at least one good and one bad login, or nothing can be confused
	ex.Creds[r.Intn(n)] = "right"
	if i := r.Intn(n); ex.Creds[i] == "right" {
		ex.Creds[(i+1)%n] = "wrong"
	}
	raw, _ := json.Marshal(ex)
	plan := Plan{Prop: "C01", Seed: seed, Tier: tier, Mode: "c01conc", Cfg: cfg, Extra: raw}
	for k := 1; k <= n; k++ {
		plan.Steps = append(plan.Steps, Step{Kind: "login", B: k, Str: map[string]string{"cred": ex.Creds[k-1]}})
	}
	return plan
}

func c01ConcExec(t *testing.T, plan Plan, keepTrace bool) *RunResult {
	res := &RunResult{Plan: plan, Stats: newStats()}
	dg := newDigester(keepTrace)
	var hp interface{}
	func() {
		defer func() {
			if r := recover(); r != nil {
				hp = r
			}
		}()
		bubble(t, func(t *testing.T) {
			w := NewWorld(t, plan.Cfg, plan.Seed, true)
			defer w.Close()
			cs := w.sched.(*concSched)
			cs.rng = NewRng(plan.Seed ^ 0x1a11)
			w.rand.perTask = func() *Rng {
				if tk := cs.lookup(goid()); tk != nil {
					return tk.rng
				}
				return nil
			}
			owner := w.Accts[0]
			var racers []*concClient
			creds := map[int]string{}
			for _, st := range plan.Steps {
				if st.Kind != "login" || st.B <= 0 || st.B >= len(w.Browsers) || st.B >= maxClients {
					continue
				}
				pw := ""
				switch st.str("cred") {
				case "right":
					pw = w.KB.Password[0]
				case "other":
					pw = w.KB.Password[1]
				case "empty":
				default:
					pw = "Wr0ng-pass!" + fmt.Sprint(st.B)
				}
				creds[st.B] = st.str("cred")
				c := &concClient{n: st.B, w: w, pid: owner.PID, email: owner.Email, pw: pw, script: []Step{{Kind: "login", B: st.B}}}
				racers = append(racers, c)
			}
			for _, c := range racers {
				c.task = cs.claimClient(c.n, NewRng(plan.Seed^uint64(0x9e37*(c.n+1))))
				go func() {
					raceDisable()
					c.task.gid.Store(goid())
					raceEnable()
					cs.park(c.task, "start")
					c.runScript()
					cs.finish(c.task)
				}()
			}
			if err := cs.run(); err != nil {
				panic("C01 concurrent scheduler: " + err.Error())
			}
			if cs.extBlocked == 0 {
				synctest.Wait()
			}
			for _, p := range cs.picks {
				dg.line("pick %s", p)
			}
			res.Stats.Reach["c01_conc_picks"] += len(cs.picks)
			add := func(clause, detail string) {
				v := viol("C01", clause, "overlapping_logins", nil, detail)
				res.Violations = append(res.Violations, v)
				dg.line("VIOLATION %s :: %s", v.Sig(), v.Detail)
			}
			same := w.KB.Password[0] == w.KB.Password[1]
			for _, c := range racers {
				br := w.Browsers[c.n]
				dg.line("racer %d cred=%s sess=%s cook=%s", c.n, creds[c.n], canonMap(br.Session), canonMap(br.Cookies))
				for _, l := range c.log {
					dg.line("  c%d %s", c.n, l)
				}
				res.Stats.Requests++
				good := creds[c.n] == "right" || (creds[c.n] == "other" && same)
				got := br.Session["uid"] != "" || br.Session["totp_pending"] != "" || br.Session["sms_pending"] != ""
				switch {
				case got && !good:
					add("session_without_credential", fmt.Sprintf("browser %d posted a %s password for %s while %d other logins for the account were being checked and came away with session %s",
						c.n, creds[c.n], owner.PID, len(racers)-1, canonMap(br.Session)))
				case good && br.Session["uid"] == owner.PID:
					res.Stats.Reach["c01_conc_right_accepted"]++
				case good:
					res.Stats.Reach["c01_conc_right_refused"]++
				default:
					res.Stats.Reach["c01_conc_wrong_refused"]++
				}
			}
			h := newDigester(false)
			for _, p := range cs.picks {
				h.line("%s", p)
			}
			res.EndState = "c01conc:" + h.sum()
			res.Nontrivial = true
			res.Stats.Reach["c01_conc_runs"]++
		})
	}()
	if hp != nil {
		panic(fmt.Sprintf("harness panic in C01 concurrent run seed=%d: %v", plan.Seed, hp))
	}
	sort.Slice(res.Violations, func(i, j int) bool { return res.Violations[i].Sig() < res.Violations[j].Sig() })
	res.Stats.Steps = len(plan.Steps)
	res.Digest = dg.sum()
	res.Trace = dg.trace
	return res
}
