package sim

import (
	"crypto/sha512"
	"encoding/base64"
	"fmt"
	"strings"
	"time"

	"golang.org/x/crypto/bcrypt"
)

// --- classification of authentication attempts (shared by C03/C04) -------------
//
// The classification is computed from the database as it was before the request
// and from what the request carried; it never looks at the response.

type attempt struct {
	acct      int
	pid       string
	kind      string // none | fail | primary_ok | second_ok | ambiguous
	path      string
	hasFactor bool
}

func otpMatches(stored, cand string) bool {
	if stored == "" {
		return false
	}
	sum := sha512.Sum512([]byte(cand))
	h := base64.StdEncoding.EncodeToString(sum[:])
	for _, s := range strings.Split(stored, ",") {
		if s == h {
			return true
		}
	}
	return false
}

func recoveryMatches(stored, cand string) bool {
	if stored == "" {
		return false
	}
	for _, s := range strings.Split(stored, ",") {
		if bcrypt.CompareHashAndPassword([]byte(s), []byte(cand)) == nil {
			return true
		}
	}
	return false
}

func (w *World) rowHasFactor(r *Row) bool {
	return r.TOTPSecretKey != "" && w.Cfg.hasSetup("totp") || r.SMSPhone != "" && w.Cfg.hasSetup("sms")
}

func (w *World) classifyAttempt(o *Obs) attempt {
	st := o.Step
	none := attempt{acct: -1, kind: "none"}
	if !o.IsHTTP || o.Method != "POST" {
		return none
	}
	switch st.Kind {
	case "login", "otp_login":
		pid := w.pidOf(st.A, st)
		row := o.RowsBefore[pid]
		if row == nil {
			return none
		}
		at := attempt{acct: w.acctByPID(pid), pid: pid, path: st.Kind, hasFactor: w.rowHasFactor(row)}
		cand := ""
		if p := o.presented("password"); p != nil {
			cand = p.Value
		} else if p := o.presented("otp"); p != nil {
			cand = p.Value
		}
		ok := false
		if st.Kind == "login" {
			ok = pwMatches(row.Password, cand)
		} else {
			ok = otpMatches(row.OTPs, cand)
		}
		if ok {
			at.kind = "primary_ok"
		} else {
			at.kind = "fail"
		}
		return at
	case "totp_validate", "sms_validate":
		pid := o.uidBefore()
		if pid == "" {
			pid = o.SessBefore[strings.TrimSuffix(st.Kind, "_validate")+"_pending"]
		}
		row := o.RowsBefore[pid]
		if pid == "" || row == nil {
			return none
		}
		at := attempt{acct: w.acctByPID(pid), pid: pid, path: st.Kind, hasFactor: true}
		rc := o.presented("recovery")
		code := o.presented("code")
		if st.Kind == "totp_validate" {
			if row.TOTPSecretKey == "" {
				return none
			}
			switch {
			case rc != nil && rc.Value != "":
				if recoveryMatches(row.RecoveryCodes, rc.Value) {
					at.kind = "second_ok"
				} else {
					at.kind = "fail"
				}
			case code == nil:
				// empty code submitted
				at.kind = "fail"
				if w.Cfg.TOTPOneTime && row.TOTPLastCode == "" {
					at.kind = "fail"
				}
			default:
				v := totpVerdict(row.TOTPSecretKey, code.Value, o.Now)
				switch {
				case w.Cfg.TOTPOneTime && row.TOTPLastCode == code.Value:
					at.kind = "fail"
				case v == "fresh":
					at.kind = "second_ok"
				case v == "stale":
					at.kind = "fail"
				default:
					at.kind = "ambiguous"
				}
			}
			return at
		}
		// sms
		switch {
		case rc != nil && rc.Value != "":
			if recoveryMatches(row.RecoveryCodes, rc.Value) {
				at.kind = "second_ok"
			} else {
				at.kind = "fail"
			}
		case code == nil || code.Value == "":
			return none // request for a (re)send
		default:
			sec := o.SessBefore["sms_secret"]
			switch {
			case sec == "":
				return none // handler error: no code in session
			case row.SMSPhone == "":
				at.kind = "ambiguous"
			case sec == code.Value && code.Known != nil && code.Known.Kind == "sms" && code.Known.Number != row.SMSPhone:
				// the code the session expects was sent to somebody else's
				// number: not this account's factor
				at.kind = "fail"
			case sec == code.Value:
				at.kind = "second_ok"
			default:
				at.kind = "fail"
			}
		}
		return at
	case "sms_confirm", "sms_remove":
		// a wrong code here fires the same failure event; the statement does
		// not say whether enrolment typos count
		if pid := o.uidBefore(); pid != "" {
			return attempt{acct: w.acctByPID(pid), pid: pid, kind: "ambiguous", path: st.Kind}
		}
	}
	return none
}

// --- C04 reference automaton -----------------------------------------------------

type lockRef struct {
	count       int
	last        time.Time
	lastKnown   bool
	lockedUntil time.Time
}

type c04Oracle struct {
	ref map[string]*lockRef // by pid
}

func newC04Oracle(w *World) Oracle {
	o := &c04Oracle{ref: map[string]*lockRef{}}
	for pid, r := range w.DB.rows {
		o.ref[pid] = &lockRef{count: r.AttemptCount, last: r.LastAttempt, lockedUntil: r.Locked}
	}
	return o
}

func (c *c04Oracle) adopt(pid string, r *Row) {
	if r == nil {
		delete(c.ref, pid)
		return
	}
	c.ref[pid] = &lockRef{count: r.AttemptCount, last: r.LastAttempt, lastKnown: true, lockedUntil: r.Locked}
}

func (c *c04Oracle) Check(w *World, o *Obs) []Violation {
	var out []Violation
	cfg := &w.Cfg
	st := o.Step
	now := o.Now.UTC()
	N, W, D := cfg.LockAfter, cfg.LockWindow, cfg.LockDuration

	// rows that appeared / disappeared
	for pid, r := range o.RowsAfter {
		if _, ok := o.RowsBefore[pid]; !ok {
			c.adopt(pid, r)
		}
	}
	for pid := range o.RowsBefore {
		if _, ok := o.RowsAfter[pid]; !ok {
			delete(c.ref, pid)
		}
	}

	ambiguous := map[string]bool{}
	touched := ""
	switch st.Kind {
	case "op_lock":
		if ref := c.ref[w.pidOf(st.A, st)]; ref != nil && o.OpErr == "" {
			ref.lockedUntil = now.Add(D)
			touched = w.pidOf(st.A, st)
		}
	case "op_unlock":
		if ref := c.ref[w.pidOf(st.A, st)]; ref != nil && o.OpErr == "" {
			ref.count = 0
			ref.lockedUntil = time.Time{}
			ref.lastKnown = false
			touched = w.pidOf(st.A, st)
		}
	default:
		at := w.classifyAttempt(o)
		ref := c.ref[at.pid]
		if at.kind == "none" || ref == nil {
			break
		}
		touched = at.pid
		row := o.RowsBefore[at.pid]
		lockedBefore := ref.lockedUntil.After(now)
		boundary := ref.lockedUntil.Equal(now)
		switch at.kind {
		case "ambiguous":
			ambiguous[at.pid] = true
		case "fail":
			gap := now.Sub(ref.last)
			switch {
			case !ref.lastKnown || gap > W:
				// only a pause longer than the window restarts the count; a
				// pause exactly equal to it does not
				ref.count = 1
			default:
				ref.count++
			}
			if ref.count >= N {
				ref.lockedUntil = now.Add(D)
			}
			ref.last, ref.lastKnown = now, true
		case "primary_ok":
			ref.last, ref.lastKnown = now, true
			confirmedOK := !cfg.hasModule("confirm") || row.Confirmed
			completes := !lockedBefore && confirmedOK && !at.hasFactor
			uid, has := w.loginPut(o)
			got := has && uid == at.pid
			switch {
			case boundary:
				ambiguous[at.pid] = true
			case lockedBefore && got:
				out = append(out, viol("C04", "locked_login_accepted", at.path, o,
					fmt.Sprintf("account %s locked until %s (now %s) yet a correct credential logged in", at.pid, ref.lockedUntil.Format(time.RFC3339Nano), now.Format(time.RFC3339Nano))))
			case completes && !got && o.FaultFired == "":
				out = append(out, viol("C04", "unlocked_login_refused", at.path, o,
					fmt.Sprintf("account %s is not locked (lockedUntil %v, count %d) yet a correct credential was refused: status %d loc %q", at.pid, ref.lockedUntil, ref.count, o.Status, o.Location)))
			}
			if completes {
				ref.count = 0
				w.Stats.Reach["c04_login_completed"]++
			}
			if lockedBefore {
				w.Stats.Reach["c04_locked_login_refused"]++
			}
		case "second_ok":
			if lockedBefore || boundary || cfg.hasModule("confirm") && !row.Confirmed {
				// whether a second step may complete while locked is C03's
				// business; the counter may legitimately go either way
				ambiguous[at.pid] = true
			} else {
				ref.count = 0
				ref.last, ref.lastKnown = now, true
				w.Stats.Reach["c04_2fa_completed"]++
			}
		}
		if at.kind == "fail" {
			w.Stats.Reach["c04_failure_"+at.path]++
			if ref.lockedUntil.Equal(now.Add(D)) {
				w.Stats.Reach["c04_lock_triggered"]++
			}
		}
	}
	_ = touched

	// compare every account with the automaton
	for pid, row := range o.RowsAfter {
		ref := c.ref[pid]
		if ref == nil {
			continue
		}
		if ambiguous[pid] {
			c.adopt(pid, row)
			continue
		}
		site := st.Kind
		if row.AttemptCount != ref.count {
			out = append(out, viol("C04", "count", site, o,
				fmt.Sprintf("account %s: stored attempt count %d, reference %d (LockAfter=%d window=%s)", pid, row.AttemptCount, ref.count, N, W),
				"delta", sign(row.AttemptCount-ref.count)))
			c.adopt(pid, row)
			continue
		}
		sLocked, rLocked := row.Locked.After(now), ref.lockedUntil.After(now)
		if sLocked != rLocked {
			out = append(out, viol("C04", "locked", site, o,
				fmt.Sprintf("account %s: stored locked-until %v (locked=%v), reference %v (locked=%v); count=%d LockAfter=%d", pid, row.Locked, sLocked, ref.lockedUntil, rLocked, ref.count, N),
				"stored", fmt.Sprint(sLocked)))
			c.adopt(pid, row)
			continue
		}
		if rLocked && !row.Locked.Equal(ref.lockedUntil) {
			out = append(out, viol("C04", "locked_until", site, o,
				fmt.Sprintf("account %s: locked until %v, reference %v", pid, row.Locked, ref.lockedUntil)))
			c.adopt(pid, row)
			continue
		}
		if ref.lastKnown && !row.LastAttempt.Equal(ref.last) {
			out = append(out, viol("C04", "last_attempt", site, o,
				fmt.Sprintf("account %s: stored last attempt %v, reference %v", pid, row.LastAttempt, ref.last)))
			c.adopt(pid, row)
			continue
		}
	}
	return out
}

func sign(n int) string {
	switch {
	case n < 0:
		return "-"
	case n > 0:
		return "+"
	}
	return "0"
}

func (c *c04Oracle) Finish(w *World) []Violation { return nil }
