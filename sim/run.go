package sim

import (
	"crypto/sha256"
	"encoding/hex"
	"encoding/json"
	"fmt"
	"runtime/debug"
	"sort"
	"strings"
	"testing"
	"testing/synctest"
	"time"
)

// Violation is one oracle failure with a structured signature.
type Violation struct {
	Prop   string            `json:"prop"`
	Clause string            `json:"clause"`
	Site   string            `json:"site"`
	Attrs  map[string]string `json:"attrs,omitempty"`
	Detail string            `json:"detail"`
	Step   int               `json:"step"`
	// Plan, when set, is the plan that reproduces this particular violation
	// (runs that execute several plans, e.g. fault enumeration).
	Plan *Plan `json:"-"`
}

// Sig is what minimisation preserves and what known findings match on.
func (v Violation) Sig() string {
	var ks []string
	for k := range v.Attrs {
		ks = append(ks, k)
	}
	sort.Strings(ks)
	var sb strings.Builder
	fmt.Fprintf(&sb, "%s clause=%s site=%s", v.Prop, v.Clause, v.Site)
	for _, k := range ks {
		fmt.Fprintf(&sb, " %s=%s", k, v.Attrs[k])
	}
	return sb.String()
}

func viol(prop, clause, site string, o *Obs, detail string, attrs ...string) Violation {
	v := Violation{Prop: prop, Clause: clause, Site: site, Detail: detail}
	if o != nil {
		v.Step = o.N
	}
	if len(attrs) > 0 {
		v.Attrs = map[string]string{}
		for i := 0; i+1 < len(attrs); i += 2 {
			v.Attrs[attrs[i]] = attrs[i+1]
		}
	}
	return v
}

// Plan is a replayable run: configuration plus the concrete symbolic steps.
type Plan struct {
	Prop   string            `json:"prop"`
	Seed   uint64            `json:"seed"`
	Tier   string            `json:"tier"`
	Mode   string            `json:"mode,omitempty"` // "" sequence | custom modes of some properties
	Cfg    Config            `json:"cfg"`
	Steps  []Step            `json:"steps"`
	Extra  json.RawMessage   `json:"extra,omitempty"`
	Expect string            `json:"expect,omitempty"` // expected violation signature
	Digest string            `json:"digest,omitempty"`
	Detail string            `json:"detail,omitempty"`
	Env    map[string]string `json:"env,omitempty"`
	// Attempts > 0: on the tree this file was written for, the violation is
	// not a function of the schedule alone (the library has acquired hidden
	// state of its own, e.g. a sync.Pool); it showed in some of so many
	// replays of this plan, and a replay tries as often
	Attempts int `json:"attempts,omitempty"`
}

// RunResult is the outcome of executing a plan once.
type RunResult struct {
	Plan       Plan
	Violations []Violation
	Digest     string
	Stats      *Stats
	EndState   string
	Trace      []string
	Nontrivial bool
}

// Oracle judges each step; Finish judges the whole history.
type Oracle interface {
	Check(w *World, o *Obs) []Violation
	Finish(w *World) []Violation
}

// Generator produces the next step from the current world; nil ends the run.
type Generator interface {
	Next(w *World, n int) *Step
}

type oracleSet []Oracle

func (s oracleSet) Check(w *World, o *Obs) []Violation {
	var out []Violation
	for _, x := range s {
		out = append(out, x.Check(w, o)...)
	}
	return out
}

func (s oracleSet) Finish(w *World) []Violation {
	var out []Violation
	for _, x := range s {
		out = append(out, x.Finish(w)...)
	}
	return out
}

type digester struct {
	h     interface{ Write([]byte) (int, error) }
	sum   func() string
	trace []string
	keep  bool
}

func newDigester(keep bool) *digester {
	h := sha256.New()
	return &digester{h: h, sum: func() string { return hex.EncodeToString(h.Sum(nil)) }, keep: keep}
}

func (d *digester) line(format string, args ...interface{}) {
	s := fmt.Sprintf(format, args...)
	d.h.Write([]byte(s))
	d.h.Write([]byte{'\n'})
	if d.keep {
		d.trace = append(d.trace, s)
	}
}

func (d *digester) obs(w *World, o *Obs) {
	d.line("step %d t=%d %s", o.N, o.Now.Sub(w.t0), o.Step.String())
	if o.IsHTTP {
		d.line("  %s %s body=%q -> %d loc=%q body=%q", o.Method, o.Target, o.ReqBody, o.Status, o.Location, o.Body)
	}
	d.line("  sess=%s cook=%s", canonMap(o.SessAfter), canonMap(o.CookAfter))
	d.line("  db=%s", w.DB.canon())
	for _, m := range o.Mails {
		d.line("  mail to=%v kind=%s token=%s fate=%s", m.To, m.Kind, m.Token, m.Fate)
	}
	for _, s := range o.SMS {
		d.line("  sms to=%s code=%s fate=%s", s.Number, s.Code, s.Fate)
	}
	for _, l := range o.Logs {
		d.line("  log %s", strings.TrimSpace(l))
	}
	if o.Panic != "" {
		d.line("  panic %s", o.Panic)
	}
	for _, e := range o.HandlerErrs {
		d.line("  herr %s", e)
	}
	if o.FaultFired != "" {
		d.line("  fault fired at %s", o.FaultFired)
	}
	if o.Probe != nil {
		d.line("  probe ran=%v uid=%q err=%q sess=%s", o.Probe.Ran, o.Probe.UserID, o.Probe.UserErr, canonMap(o.Probe.Session))
	}
}

// abstractState summarises the end state (for the distinct-state measure).
func (w *World) abstractState() string {
	var sb strings.Builder
	for _, b := range w.Browsers {
		var ks []string
		for k := range b.Session {
			if k == "flash_success" || k == "flash_error" {
				continue
			}
			ks = append(ks, k)
		}
		sort.Strings(ks)
		fmt.Fprintf(&sb, "b%d[%s uid=%d rm=%v]", b.N, strings.Join(ks, ","), w.acctByPID(b.Session["uid"]), b.Cookies["rm"] != "")
	}
	now := time.Now()
	for _, a := range w.Accts {
		r := w.DB.rows[a.PID]
		if r == nil {
			fmt.Fprintf(&sb, "a%d[gone]", a.N)
			continue
		}
		nOTP := 0
		if r.OTPs != "" {
			nOTP = strings.Count(r.OTPs, ",") + 1
		}
		nRC := 0
		if r.RecoveryCodes != "" {
			nRC = strings.Count(r.RecoveryCodes, ",") + 1
		}
		fmt.Fprintf(&sb, "a%d[l=%v c=%v t=%v s=%v o=%d r=%d cs=%v rs=%v n=%d]", a.N, r.Locked.After(now), r.Confirmed,
			r.TOTPSecretKey != "", r.SMSPhone != "", nOTP, nRC, r.ConfirmSelector != "", r.RecoverSelector != "", r.AttemptCount)
	}
	fmt.Fprintf(&sb, "rm=%d", len(w.DB.rm))
	return sb.String()
}

// runSequence executes a plan (gen == nil: the recorded steps; otherwise the
// generator produces and records them) in a fresh world inside a bubble.
func runSequence(t *testing.T, plan Plan, gen func(w *World) Generator, mkOracle func(w *World) Oracle, keepTrace bool) *RunResult {
	res := &RunResult{Plan: plan}
	res.Plan.Steps = nil
	dg := newDigester(keepTrace)
	var harnessPanic interface{}
	func() {
		defer func() {
			if r := recover(); r != nil {
				harnessPanic = r
			}
		}()
		bubble(t, func(t *testing.T) {
			defer func() {
				if r := recover(); r != nil {
					harnessPanic = fmt.Sprintf("%v\n%s", r, debug.Stack())
				}
			}()
			w := NewWorld(t, plan.Cfg, plan.Seed, false)
			defer w.Close()
			defer func() {
				// never leave parked goroutines behind
				if ss, ok := w.sched.(*seqSched); ok {
					ss.drain = true
				}
				w.sched.afterRequest(w)
			}()
			if plan.Cfg.WholeSecondClock {
				// nothing to do: gaps are whole seconds and the bubble starts on one
			}
			oracle := mkOracle(w)
			var g Generator
			if gen != nil {
				g = gen(w)
			}
			seen := map[string]bool{}
			for n := 0; ; n++ {
				var st *Step
				if g != nil {
					st = g.Next(w, n)
				} else if n < len(plan.Steps) {
					s := plan.Steps[n]
					st = &s
				}
				if st == nil {
					break
				}
				o := w.Exec(n, st)
				res.Plan.Steps = append(res.Plan.Steps, *st)
				w.Stats.Steps++
				w.Stats.StepKind[st.Kind]++
				dg.obs(w, o)
				vs := oracle.Check(w, o)
				// oracles may walk maps: order the step's violations so that the
				// trace is a function of the plan alone
				sort.SliceStable(vs, func(i, j int) bool {
					if vs[i].Sig() != vs[j].Sig() {
						return vs[i].Sig() < vs[j].Sig()
					}
					return vs[i].Detail < vs[j].Detail
				})
				for _, v := range vs {
					if !seen[v.Sig()] {
						seen[v.Sig()] = true
						res.Violations = append(res.Violations, v)
						dg.line("  VIOLATION %s :: %s", v.Sig(), v.Detail)
					}
				}
				w.kbUpdate(o)
			}
			for _, v := range oracle.Finish(w) {
				if !seen[v.Sig()] {
					seen[v.Sig()] = true
					res.Violations = append(res.Violations, v)
					dg.line("  VIOLATION %s :: %s", v.Sig(), v.Detail)
				}
			}
			res.Stats = w.Stats
			res.EndState = w.abstractState()
		})
	}()
	if harnessPanic != nil {
		panic(fmt.Sprintf("harness panic in run seed=%d prop=%s: %v", plan.Seed, plan.Prop, harnessPanic))
	}
	res.Digest = dg.sum()
	res.Trace = dg.trace
	return res
}

func hasSig(vs []Violation, sig string) *Violation {
	for i := range vs {
		if vs[i].Sig() == sig {
			return &vs[i]
		}
	}
	return nil
}

// shrink minimises the step list (delta debugging, then per-step
// simplification) while the same signature keeps firing.
func shrink(plan Plan, sig string, exec func(Plan) *RunResult, budget int) (Plan, *RunResult) {
	best := plan
	var bestRes *RunResult
	try := func(p Plan) bool {
		if budget <= 0 {
			return false
		}
		budget--
		r := exec(p)
		if hasSig(r.Violations, sig) != nil {
			best = p
			best.Steps = append([]Step(nil), p.Steps...)
			bestRes = r
			return true
		}
		return false
	}
	// cut everything after the violating step first
	if r := exec(plan); hasSig(r.Violations, sig) != nil {
		bestRes = r
		v := hasSig(r.Violations, sig)
		if v.Step+1 < len(plan.Steps) {
			p := plan
			p.Steps = append([]Step(nil), plan.Steps[:v.Step+1]...)
			try(p)
		}
	} else {
		return plan, r
	}
	// ddmin
	n := 2
	for len(best.Steps) >= 2 && budget > 0 {
		chunk := (len(best.Steps) + n - 1) / n
		reduced := false
		for start := 0; start < len(best.Steps) && budget > 0; start += chunk {
			end := start + chunk
			if end > len(best.Steps) {
				end = len(best.Steps)
			}
			p := best
			p.Steps = append(append([]Step(nil), best.Steps[:start]...), best.Steps[end:]...)
			if len(p.Steps) == 0 {
				continue
			}
			if try(p) {
				reduced = true
				if n > 2 {
					n--
				}
				break
			}
		}
		if !reduced {
			if chunk <= 1 {
				break
			}
			n *= 2
			if n > len(best.Steps) {
				n = len(best.Steps)
			}
		}
	}
	// per-step simplification
	for i := 0; i < len(best.Steps) && budget > 0; i++ {
		s := best.Steps[i]
		if s.Fault != nil {
			p := best
			p.Steps = append([]Step(nil), best.Steps...)
			p.Steps[i].Fault = nil
			try(p)
		}
		if best.Steps[i].Gap != 0 {
			for _, g := range []time.Duration{0, time.Second, best.Steps[i].Gap.Truncate(time.Second)} {
				if g == best.Steps[i].Gap {
					continue
				}
				p := best
				p.Steps = append([]Step(nil), best.Steps...)
				p.Steps[i].Gap = g
				if try(p) {
					break
				}
			}
		}
		if best.Steps[i].RM {
			p := best
			p.Steps = append([]Step(nil), best.Steps...)
			p.Steps[i].RM = false
			try(p)
		}
	}
	return best, bestRes
}

// bubble runs f in a synctest bubble. synctest.Test ends the calling goroutine
// (FailNow) when the bubble's test is marked failed - which the race detector
// does on its own when it reports something - so it is given a goroutine of
// its own and the caller carries on with the remaining runs.
func bubble(t *testing.T, f func(t *testing.T)) {
	startRealTick()
	done := make(chan struct{})
	var pv interface{}
	go func() {
		defer close(done)
		defer func() { pv = recover() }()
		synctest.Test(t, f)
	}()
	<-done
	if pv != nil {
		panic(pv)
	}
}
