package sim

import (
	"fmt"
	"net/http"
	"sort"
	"strconv"
	"strings"

	"github.com/volatiletech/authboss/v3"
)

// Browser owns a session jar and a cookie jar.
type Browser struct {
	N       int
	Session map[string]string
	Cookies map[string]string
	// CookieHistory keeps every value the rm cookie ever had in this browser
	// (for stale-copy replay).
	CookieHistory []string
	last          *lastReq
}

func newBrowser(n int) *Browser {
	return &Browser{N: n, Session: map[string]string{}, Cookies: map[string]string{}}
}

func canonMap(m map[string]string) string {
	ks := make([]string, 0, len(m))
	for k := range m {
		ks = append(ks, k)
	}
	sort.Strings(ks)
	var sb strings.Builder
	for _, k := range ks {
		fmt.Fprintf(&sb, "%s=%q;", k, m[k])
	}
	return sb.String()
}

func copyMap(m map[string]string) map[string]string {
	c := make(map[string]string, len(m))
	for k, v := range m {
		c[k] = v
	}
	return c
}

const browserHeader = "X-Sim-Browser"

// jarState is the ClientState handed to the library: a snapshot taken when the
// request started.
type jarState struct {
	browser int
	vals    map[string]string
}

func (j *jarState) Get(k string) (string, bool) { v, ok := j.vals[k]; return v, ok }

// WriteRec records one WriteState call (C11).
type WriteRec struct {
	Seq    uint64
	Kind   string
	Events []authboss.ClientStateEvent
}

type stateRW struct {
	w    *World
	kind string // session | cookie
}

func (s *stateRW) jar(b *Browser) map[string]string {
	if s.kind == "session" {
		return b.Session
	}
	return b.Cookies
}

func (s *stateRW) ReadState(r *http.Request) (authboss.ClientState, error) {
	s.w.seam("cs.read."+s.kind, "")
	n, err := strconv.Atoi(r.Header.Get(browserHeader))
	if err != nil || n < 0 || n >= len(s.w.Browsers) {
		return nil, fmt.Errorf("sim: request without browser id")
	}
	b := s.w.Browsers[n]
	if s.w.Cfg.NilEmptyState && len(s.jar(b)) == 0 {
		return nil, nil
	}
	return &jarState{browser: n, vals: copyMap(s.jar(b))}, nil
}

func (s *stateRW) WriteState(rw http.ResponseWriter, st authboss.ClientState, evs []authboss.ClientStateEvent) error {
	s.w.seam("cs.write."+s.kind, "")
	js, ok := st.(*jarState)
	if !ok || js == nil {
		// nil state: the store finds its client through the response (a real
		// store would set a cookie on it)
		n, err := strconv.Atoi(rw.Header().Get(browserHeader))
		if err != nil || n < 0 || n >= len(s.w.Browsers) {
			return fmt.Errorf("sim: WriteState without state")
		}
		js = &jarState{browser: n}
	}
	b := s.w.Browsers[js.browser]
	if cur := s.w.cur; cur != nil {
		if s.kind == "session" {
			cur.sessEvents = append(cur.sessEvents, evs...)
		} else {
			cur.cookEvents = append(cur.cookEvents, evs...)
		}
		cur.writes = append(cur.writes, WriteRec{Seq: s.w.nextSeq(), Kind: s.kind, Events: append([]authboss.ClientStateEvent(nil), evs...)})
	}
	applyEvents(s.jar(b), evs)
	if s.kind == "cookie" {
		if v, ok := b.Cookies[authboss.CookieRemember]; ok {
			if n := len(b.CookieHistory); n == 0 || b.CookieHistory[n-1] != v {
				b.CookieHistory = append(b.CookieHistory, v)
			}
		}
	}
	return nil
}

// applyEvents implements the documented semantics: put, del, and del-all
// except a comma separated whitelist.
func applyEvents(jar map[string]string, evs []authboss.ClientStateEvent) {
	for _, ev := range evs {
		switch ev.Kind {
		case authboss.ClientStateEventPut:
			jar[ev.Key] = ev.Value
		case authboss.ClientStateEventDel:
			delete(jar, ev.Key)
		case authboss.ClientStateEventDelAll:
			keep := map[string]bool{}
			if ev.Key != "" {
				for _, k := range strings.Split(ev.Key, ",") {
					keep[k] = true
				}
			}
			for k := range jar {
				if !keep[k] {
					delete(jar, k)
				}
			}
		}
	}
}
