package sim

import (
	"encoding/json"
	"errors"
	"fmt"
	"io"
	"net/http"
	"net/http/httptest"
	"strings"
	"testing"

	"github.com/volatiletech/authboss/v3"
)

// C11: client-state changes reach the client exactly once, in order, before the
// body. Operation-sequence testing of the client-state response writer against
// a reference model, with store read/write failures as the one fault kind.
//
// A program is a list of steps (Kind = op):
//   put/del/delall  store=session|cookie key val
//   header          key val
//   writeheader     code
//   write           data
//   read            store key

type c11Extra struct {
	Wrappers []string          `json:"wrappers"` // outermost last: "underlying" | "unwrap"
	Fault    string            `json:"fault"`    // "", read.session, read.cookie, write.session, write.cookie
	Session  map[string]string `json:"session"`
	Cookie   map[string]string `json:"cookie"`
	// Prelude is the handler program of an earlier request served through the
	// same middleware value (it may end in a panic, which the server
	// recovers); the request under test must not be affected by it
	Prelude []Step `json:"prelude,omitempty"`
}

type c11Rec struct {
	seq     int
	calls   []c11Call
	firstWr int // seq of first WriteHeader/Write on the underlying writer (0 = none)
	status  int
	body    strings.Builder
	hdrAtWr http.Header
	reads   []string
	step    int          // index of the program step being executed
	flushed map[int]bool // program steps whose flush reached the server's writer
}

type c11Call struct {
	seq   int
	step  int // program step during which the store was written
	store string
	evs   []authboss.ClientStateEvent
}

type c11Store struct {
	rec   *c11Rec
	kind  string
	vals  map[string]string
	fault string
}

type c11State map[string]string

func (s c11State) Get(k string) (string, bool) { v, ok := s[k]; return v, ok }

func (s *c11Store) ReadState(r *http.Request) (authboss.ClientState, error) {
	if s.fault == "read."+s.kind {
		return nil, errors.New("sim: store read failure")
	}
	return c11State(copyMap(s.vals)), nil
}

func (s *c11Store) WriteState(w http.ResponseWriter, st authboss.ClientState, evs []authboss.ClientStateEvent) error {
	s.rec.seq++
	s.rec.calls = append(s.rec.calls, c11Call{seq: s.rec.seq, step: s.rec.step, store: s.kind, evs: append([]authboss.ClientStateEvent(nil), evs...)})
	if s.fault == "write."+s.kind {
		return errors.New("sim: store write failure")
	}
	return nil
}

// c11Under is the server's own ResponseWriter.
type c11Under struct {
	rec *c11Rec
	hdr http.Header
}

func (u *c11Under) Header() http.Header { return u.hdr }
func (u *c11Under) WriteHeader(code int) {
	u.rec.seq++
	if u.rec.firstWr == 0 {
		u.rec.firstWr = u.rec.seq
		u.rec.hdrAtWr = u.hdr.Clone()
	}
	if u.rec.status == 0 {
		u.rec.status = code
	}
}
func (u *c11Under) Write(b []byte) (int, error) {
	u.rec.seq++
	if u.rec.firstWr == 0 {
		u.rec.firstWr = u.rec.seq
		u.rec.hdrAtWr = u.hdr.Clone()
	}
	if u.rec.status == 0 {
		u.rec.status = 200
	}
	u.rec.body.Write(b)
	return len(b), nil
}

// Flush: the server releases what it has buffered - at least the status line
// and the header.
func (u *c11Under) Flush() {
	u.rec.seq++
	if u.rec.firstWr == 0 {
		u.rec.firstWr = u.rec.seq
		u.rec.hdrAtWr = u.hdr.Clone()
	}
	if u.rec.status == 0 {
		u.rec.status = 200
	}
	if u.rec.flushed == nil {
		u.rec.flushed = map[int]bool{}
	}
	u.rec.flushed[u.rec.step] = true
}

// ReadFrom: the server's writer can take a body straight from a reader
// (io.Copy looks for it), as net/http's does.
func (u *c11Under) ReadFrom(r io.Reader) (int64, error) {
	b, err := io.ReadAll(r)
	n, _ := u.Write(b)
	return int64(n), err
}

// the two documented unwrapping styles
type wrapUnderlying struct{ inner http.ResponseWriter }

func (w wrapUnderlying) Header() http.Header                           { return w.inner.Header() }
func (w wrapUnderlying) WriteHeader(c int)                             { w.inner.WriteHeader(c) }
func (w wrapUnderlying) Write(b []byte) (int, error)                   { return w.inner.Write(b) }
func (w wrapUnderlying) UnderlyingResponseWriter() http.ResponseWriter { return w.inner }

type wrapUnwrap struct{ inner http.ResponseWriter }

func (w wrapUnwrap) Header() http.Header         { return w.inner.Header() }
func (w wrapUnwrap) WriteHeader(c int)           { w.inner.WriteHeader(c) }
func (w wrapUnwrap) Write(b []byte) (int, error) { return w.inner.Write(b) }
func (w wrapUnwrap) Unwrap() http.ResponseWriter { return w.inner }

func c11Exec(plan Plan) *RunResult {
	res := &RunResult{Plan: plan, Stats: newStats()}
	var ex c11Extra
	json.Unmarshal(plan.Extra, &ex)
	rec := &c11Rec{}
	sess := &c11Store{rec: rec, kind: "session", vals: ex.Session, fault: ex.Fault}
	cook := &c11Store{rec: rec, kind: "cookie", vals: ex.Cookie, fault: ex.Fault}
	ab := authboss.New()
	ab.Config.Storage.SessionState = sess
	ab.Config.Storage.CookieState = cook
	ab.Config.Core.Logger = nopLogger{}
	under := &c11Under{rec: rec, hdr: http.Header{}}
	ran := false
	var wrErrs []string
	var panicVal interface{}
	var cur []Step // the program of the request being served
	h := ab.LoadClientStateMiddleware(http.HandlerFunc(func(w http.ResponseWriter, r *http.Request) {
		ran = true
		for _, kind := range ex.Wrappers {
			if kind == "unwrap" {
				w = wrapUnwrap{w}
			} else {
				w = wrapUnderlying{w}
			}
		}
		for i, st := range cur {
			store, key, val := st.str("store"), st.str("key"), st.str("val")
			rec.step = i
			switch st.Kind {
			case "panic":
				panic("sim: the handler panics")
			case "copy":
				// the body comes from a reader that has no WriteTo of its own
				if _, err := io.Copy(w, struct{ io.Reader }{strings.NewReader(st.str("data"))}); err != nil {
					wrErrs = append(wrErrs, err.Error())
				}
			case "flush":
				// a streaming handler releases the header early: through
				// http.ResponseController (which follows Unwrap) or the
				// http.Flusher assertion
				if st.str("via") == "assert" {
					if f, ok := w.(http.Flusher); ok {
						f.Flush()
					}
				} else {
					http.NewResponseController(w).Flush()
				}
			case "put":
				if store == "session" {
					authboss.PutSession(w, key, val)
				} else {
					authboss.PutCookie(w, key, val)
				}
			case "del":
				if store == "session" {
					authboss.DelSession(w, key)
				} else {
					authboss.DelCookie(w, key)
				}
			case "delall":
				var wl []string
				if val != "" {
					wl = strings.Split(val, ",")
				}
				authboss.DelAllSession(w, wl)
			case "header":
				w.Header().Set(key, val)
			case "writeheader":
				code := 200
				fmt.Sscanf(st.str("code"), "%d", &code)
				w.WriteHeader(code)
			case "write":
				if _, err := w.Write([]byte(st.str("data"))); err != nil {
					wrErrs = append(wrErrs, err.Error())
				}
			case "read":
				var v string
				var ok bool
				if store == "session" {
					v, ok = authboss.GetSession(r, key)
				} else {
					v, ok = authboss.GetCookie(r, key)
				}
				rec.reads = append(rec.reads, fmt.Sprintf("%s.%s=%q,%v", store, key, v, ok))
			}
		}
	}))
	if len(ex.Prelude) > 0 {
		// an earlier request of another visitor through the same middleware
		cur = ex.Prelude
		func() {
			defer func() { recover() }()
			h.ServeHTTP(&c11Under{rec: &c11Rec{}, hdr: http.Header{}}, httptest.NewRequest("GET", "/earlier", nil))
		}()
		*rec = c11Rec{}
		ran, wrErrs = false, nil
		res.Stats.Reach["c11_earlier_request"]++
		for _, st := range ex.Prelude {
			if st.Kind == "panic" {
				res.Stats.Reach["c11_earlier_request_panicked"]++
			}
		}
	}
	cur = plan.Steps
	func() {
		defer func() { panicVal = recover() }()
		h.ServeHTTP(under, httptest.NewRequest("GET", "/", nil))
	}()

	// ---- reference model -------------------------------------------------------
	dg := newDigester(true)
	var expSess, expCook []authboss.ClientStateEvent
	var expReads []string
	wrote := false
	var expBody strings.Builder
	expStatus := 0
	expHdr := http.Header{}
	for i, st := range plan.Steps {
		store, key, val := st.str("store"), st.str("key"), st.str("val")
		ev := authboss.ClientStateEvent{Key: key}
		switch st.Kind {
		case "flush":
			// a flush that reached the server's writer released the header:
			// it is the handler's first write if nothing was written before
			// (or tried to: a store that fails while the state is delivered
			// for the flush ends the flush, the delivery has happened)
			delivering := false
			for _, c := range rec.calls {
				if c.step == i {
					delivering = true
				}
			}
			if rec.flushed[i] || delivering {
				if !wrote && expStatus == 0 && rec.flushed[i] {
					expStatus = 200
				}
				wrote = true
				res.Stats.Reach["c11_flush_reached_server"]++
			}
			continue
		case "put":
			ev.Kind, ev.Value = authboss.ClientStateEventPut, val
		case "del":
			ev.Kind = authboss.ClientStateEventDel
		case "delall":
			ev.Kind, ev.Key = authboss.ClientStateEventDelAll, val
			store = "session"
		case "header":
			if !wrote {
				expHdr.Set(key, val)
			}
			continue
		case "writeheader":
			if !wrote {
				fmt.Sscanf(st.str("code"), "%d", &expStatus)
			}
			wrote = true
			continue
		case "write", "copy":
			if !wrote && expStatus == 0 {
				expStatus = 200
			}
			wrote = true
			expBody.WriteString(st.str("data"))
			continue
		case "read":
			init := ex.Session
			if store == "cookie" {
				init = ex.Cookie
			}
			v, ok := init[key]
			expReads = append(expReads, fmt.Sprintf("%s.%s=%q,%v", store, key, v, ok))
			continue
		default:
			continue
		}
		if wrote {
			continue // changes after the first write are never delivered
		}
		if store == "session" {
			expSess = append(expSess, ev)
		} else {
			expCook = append(expCook, ev)
		}
	}
	add := func(clause, detail string, attrs ...string) {
		res.Violations = append(res.Violations, viol("C11", clause, "client_state_writer", nil, detail, attrs...))
	}
	evs := func(l []authboss.ClientStateEvent) string {
		var sb strings.Builder
		for _, e := range l {
			fmt.Fprintf(&sb, "[%d %q %q]", e.Kind, e.Key, e.Value)
		}
		return sb.String()
	}
	var gotSess, gotCook []c11Call
	for _, c := range rec.calls {
		if c.store == "session" {
			gotSess = append(gotSess, c)
		} else {
			gotCook = append(gotCook, c)
		}
	}
	dg.line("wrappers=%v fault=%s ran=%v panic=%v status=%d body=%q", ex.Wrappers, ex.Fault, ran, panicVal, rec.status, rec.body.String())
	for _, c := range rec.calls {
		dg.line("call seq=%d %s %s", c.seq, c.store, evs(c.evs))
	}
	dg.line("firstwrite=%d reads=%v", rec.firstWr, rec.reads)

	switch {
	case strings.HasPrefix(ex.Fault, "read."):
		res.Stats.Faults[ex.Fault]++
		if ran {
			add("handler_ran_after_read_failure", "the client state could not be read yet the handler ran")
		}
		if rec.status != 500 {
			add("read_failure_not_500", fmt.Sprintf("store read failure answered with %d", rec.status))
		}
		res.Stats.Reach["c11_read_fault"]++
	default:
		if len(gotSess) > 1 || len(gotCook) > 1 {
			add("delivered_twice", fmt.Sprintf("a store received %d/%d WriteState calls in one request", len(gotSess), len(gotCook)), "store", map[bool]string{true: "session", false: "cookie"}[len(gotSess) > 1])
		}
		for _, c := range rec.calls {
			if rec.firstWr != 0 && c.seq > rec.firstWr {
				add("delivered_after_first_byte", fmt.Sprintf("%s state was written at event %d, after the first header/body write at event %d", c.store, c.seq, rec.firstWr), "store", c.store)
			}
		}
		faultW := strings.HasPrefix(ex.Fault, "write.")
		if faultW {
			res.Stats.Faults[ex.Fault]++
		}
		if wrote {
			res.Stats.Reach["c11_program_with_write"]++
			check := func(store string, got []c11Call, exp []authboss.ClientStateEvent, skipOK bool) {
				switch {
				case len(exp) == 0 && len(got) == 0:
				case len(got) == 0:
					if !skipOK {
						add("not_delivered", fmt.Sprintf("%d %s change(s) made before the first write were never delivered: %s", len(exp), store, evs(exp)), "store", store)
					}
				case evs(got[0].evs) != evs(exp):
					add("wrong_events", fmt.Sprintf("%s store received %s, the handler made %s", store, evs(got[0].evs), evs(exp)), "store", store)
				default:
					res.Stats.Reach["c11_delivered_"+store]++
				}
			}
			check("session", gotSess, expSess, false)
			// after a session-store write failure the cookie store may be skipped (documented)
			check("cookie", gotCook, expCook, ex.Fault == "write.session" && len(expSess) > 0)
			flushFails := ex.Fault == "write.session" && len(expSess) > 0 || ex.Fault == "write.cookie" && len(expCook) > 0
			if !flushFails {
				if panicVal != nil {
					add("panic", fmt.Sprintf("handler chain panicked: %v", panicVal))
				}
				if rec.status != expStatus || rec.body.String() != expBody.String() {
					add("response_altered", fmt.Sprintf("underlying writer saw status %d body %q, handler wrote status %d body %q", rec.status, rec.body.String(), expStatus, expBody.String()))
				}
				for k := range expHdr {
					if rec.hdrAtWr.Get(k) != expHdr.Get(k) {
						add("header_lost", fmt.Sprintf("header %s set before the first write was not in place when the response started", k))
					}
				}
			} else {
				res.Stats.Reach["c11_flush_failure"]++
			}
		} else {
			if panicVal != nil {
				add("panic", fmt.Sprintf("handler chain panicked: %v", panicVal))
			}
		}
		aborted := wrote && (ex.Fault == "write.session" && len(expSess) > 0 || ex.Fault == "write.cookie" && len(expCook) > 0)
		if aborted {
			// the documented panic of WriteHeader ends the handler early
		} else if strings.Join(rec.reads, ";") != strings.Join(expReads, ";") {
			add("read_not_initial_state", fmt.Sprintf("reads returned %v, state at request start gives %v", rec.reads, expReads))
		} else if len(expReads) > 0 {
			res.Stats.Reach["c11_reads_ok"]++
		}
		if len(ex.Wrappers) > 0 {
			res.Stats.Reach["c11_wrapped_"+ex.Wrappers[len(ex.Wrappers)-1]]++
		}
	}
	for _, v := range res.Violations {
		dg.line("VIOLATION %s :: %s", v.Sig(), v.Detail)
	}
	res.Stats.Steps = len(plan.Steps)
	res.Digest = dg.sum()
	res.Trace = dg.trace
	res.EndState = fmt.Sprintf("w=%v f=%s s=%s c=%s wrote=%v", ex.Wrappers, ex.Fault, evs(expSess), evs(expCook), wrote)
	res.Nontrivial = wrote && (len(expSess) > 0 || len(expCook) > 0)
	return res
}

type nopLogger struct{}

func (nopLogger) Info(string)  {}
func (nopLogger) Error(string) {}

func c11Generate(seed uint64, tier string) Plan {
	r := NewRng(seed)
	ex := c11Extra{Session: map[string]string{"uid": "u1", "app": "x"}, Cookie: map[string]string{"rm": "tok"}}
	for i, n := 0, r.Intn(4); i < n; i++ {
		ex.Wrappers = append(ex.Wrappers, []string{"underlying", "unwrap"}[r.Intn(2)])
	}
	if r.Chance(1, 5) {
		ex.Fault = []string{"read.session", "read.cookie", "write.session", "write.cookie"}[r.Intn(4)]
	}
	keys := []string{"uid", "app", "rm", "k1", "k2", "flash_success"}
	n := 1 + r.Intn(steps(tier, 12, 30))
	var prog []Step
	for i := 0; i < n; i++ {
		store := []string{"session", "cookie"}[r.Intn(2)]
		key := keys[r.Intn(len(keys))]
		switch r.Weighted([]int{8, 4, 2, 2, 2, 3, 3, 1, 1}) {
		case 8:
			prog = append(prog, Step{Kind: "copy", Str: map[string]string{"data": fmt.Sprintf("copied%d;", i)}})
		case 7:
			prog = append(prog, Step{Kind: "flush", Str: map[string]string{"via": []string{"controller", "controller", "assert"}[r.Intn(3)]}})
		case 0:
			prog = append(prog, Step{Kind: "put", Str: map[string]string{"store": store, "key": key, "val": fmt.Sprintf("v%d", r.Intn(50))}})
		case 1:
			prog = append(prog, Step{Kind: "del", Str: map[string]string{"store": store, "key": key}})
		case 2:
			prog = append(prog, Step{Kind: "delall", Str: map[string]string{"store": "session", "val": []string{"", "app", "app,k1", "k12,k1"}[r.Intn(4)]}})
		case 3:
			prog = append(prog, Step{Kind: "header", Str: map[string]string{"key": []string{"X-A", "Content-Type", "Location"}[r.Intn(3)], "val": fmt.Sprintf("h%d", r.Intn(9))}})
		case 4:
			prog = append(prog, Step{Kind: "writeheader", Str: map[string]string{"code": []string{"200", "302", "404", "500"}[r.Intn(4)]}})
		case 5:
			data := fmt.Sprintf("chunk%d;", i)
			if r.Chance(1, 4) {
				data = "" // a zero-length write also commits the headers
			}
			prog = append(prog, Step{Kind: "write", Str: map[string]string{"data": data}})
		case 6:
			prog = append(prog, Step{Kind: "read", Str: map[string]string{"store": store, "key": key}})
		}
	}
	if r.Chance(1, 3) {
		// an earlier request through the same middleware: some changes, maybe a
		// first write, maybe a panic before or after it
		m := 1 + r.Intn(5)
		for i := 0; i < m; i++ {
			store := []string{"session", "cookie"}[r.Intn(2)]
			key := keys[r.Intn(len(keys))]
			switch r.Intn(5) {
			case 0, 1:
				ex.Prelude = append(ex.Prelude, Step{Kind: "put", Str: map[string]string{"store": store, "key": key, "val": fmt.Sprintf("earlier%d", r.Intn(50))}})
			case 2:
				ex.Prelude = append(ex.Prelude, Step{Kind: "del", Str: map[string]string{"store": store, "key": key}})
			case 3:
				ex.Prelude = append(ex.Prelude, Step{Kind: "write", Str: map[string]string{"data": "earlier;"}})
			case 4:
				ex.Prelude = append(ex.Prelude, Step{Kind: "writeheader", Str: map[string]string{"code": "200"}})
			}
		}
		if r.Bool() {
			ex.Prelude = append(ex.Prelude, Step{Kind: "panic"})
		}
	}
	b, _ := json.Marshal(ex)
	return Plan{Prop: "C11", Seed: seed, Tier: tier, Mode: "c11", Steps: prog, Extra: b}
}

func init() {
	register(&Profile{
		ID: "C11",
		Run: func(t *testing.T, seed uint64, tier string) *RunResult {
			return c11Exec(c11Generate(seed, tier))
		},
		Replay: func(t *testing.T, plan Plan, keepTrace bool) *RunResult { return c11Exec(plan) },
		RequiredReach: []string{"c11_program_with_write", "c11_delivered_session", "c11_delivered_cookie", "c11_reads_ok", "c11_read_fault", "c11_flush_failure",
			"c11_wrapped_unwrap", "c11_wrapped_underlying"},
	})
}
