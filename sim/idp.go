package sim

import (
	"encoding/json"
	"errors"
	"fmt"
	"io"
	"net/http"
	"strings"
	"sync"
)

// IdPUser is an identity at the simulated provider.
type IdPUser struct {
	Provider string
	UID      string
	Email    string
}

type idpGrant struct {
	user IdPUser
	used bool
}

// IdP is the simulated OAuth2 identity provider, reached through an
// http.RoundTripper: no sockets.
type IdP struct {
	mu     sync.Mutex
	w      *World
	codes  map[string]*idpGrant
	tokens map[string]IdPUser
	n      int
	per    map[string]int
}

func newIdP(w *World) *IdP {
	return &IdP{w: w, codes: map[string]*idpGrant{}, tokens: map[string]IdPUser{}}
}

// Grant mints an authorisation code for a user (the user consented at the
// provider).
func (p *IdP) Grant(u IdPUser) string {
	p.mu.Lock()
	defer p.mu.Unlock()
	if p.per == nil {
		p.per = map[string]int{}
	}
	p.per[u.Provider+"/"+u.UID]++
	code := fmt.Sprintf("code-%s-%s-%d", u.Provider, u.UID, p.per[u.Provider+"/"+u.UID])
	p.codes[code] = &idpGrant{user: u}
	return code
}

func jsonResp(req *http.Request, status int, body string) *http.Response {
	return &http.Response{
		StatusCode: status, Status: fmt.Sprintf("%d", status),
		Header:  http.Header{"Content-Type": []string{"application/json"}},
		Body:    io.NopCloser(strings.NewReader(body)),
		Request: req, Proto: "HTTP/1.1", ProtoMajor: 1, ProtoMinor: 1,
	}
}

func (p *IdP) RoundTrip(req *http.Request) (*http.Response, error) {
	switch {
	case req.URL.Host == "idp.example" && strings.HasSuffix(req.URL.Path, "/token"):
		f := p.w.seam("idp.token", "")
		if f == faultErr {
			// rotate through the failure shapes by call count
			p.n++
			switch p.n % 3 {
			case 0:
				return nil, errors.New("sim: idp unreachable")
			case 1:
				return jsonResp(req, 503, `{"error":"temporarily_unavailable"}`), nil
			default:
				return jsonResp(req, 200, `{"access_token": 12, `), nil
			}
		}
		body, _ := io.ReadAll(req.Body)
		req.Body.Close()
		p.mu.Lock()
		defer p.mu.Unlock()
		vals := parseForm(string(body))
		provider := strings.Split(strings.Trim(req.URL.Path, "/"), "/")[0]
		g, ok := p.codes[vals["code"]]
		if !ok || g.used || g.user.Provider != provider {
			return jsonResp(req, 400, `{"error":"invalid_grant"}`), nil
		}
		g.used = true
		p.per["at/"+g.user.Provider+"/"+g.user.UID]++
		k := p.per["at/"+g.user.Provider+"/"+g.user.UID]
		at := fmt.Sprintf("at-%s-%s-%d", g.user.Provider, g.user.UID, k)
		p.tokens[at] = g.user
		return jsonResp(req, 200, fmt.Sprintf(`{"access_token":%q,"token_type":"bearer","expires_in":3600,"refresh_token":"rt-%s-%d"}`, at, g.user.UID, k)), nil
	case req.URL.Host == "www.googleapis.com":
		f := p.w.seam("idp.userinfo", "")
		if f == faultErr {
			return nil, errors.New("sim: userinfo unreachable")
		}
		p.mu.Lock()
		defer p.mu.Unlock()
		at := strings.TrimPrefix(req.Header.Get("Authorization"), "Bearer ")
		u, ok := p.tokens[at]
		if !ok {
			return jsonResp(req, 401, `{"error":"invalid_token"}`), nil
		}
		b, _ := json.Marshal(map[string]string{"id": u.UID, "email": u.Email})
		return jsonResp(req, 200, string(b)), nil
	}
	return nil, fmt.Errorf("sim: unexpected outbound request to %s", req.URL)
}

func parseForm(s string) map[string]string {
	m := map[string]string{}
	for _, kv := range strings.Split(s, "&") {
		if kv == "" {
			continue
		}
		i := strings.IndexByte(kv, '=')
		if i < 0 {
			m[unesc(kv)] = ""
			continue
		}
		m[unesc(kv[:i])] = unesc(kv[i+1:])
	}
	return m
}
