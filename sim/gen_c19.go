package sim

import (
	"fmt"
	"strings"
)

// c19Gen produces registration histories: fresh, duplicate and hostile field
// maps, passwords built around the configured minimums, interleaved with a
// few logins / confirmations so that re-registration meets accounts in
// different states.
type c19Gen struct {
	r   *Rng
	max int
	n   int
}

var (
	pwUpper = []string{"A", "Q", "Z", "É", "Ω"}
	pwLower = []string{"a", "k", "z", "ß", "ñ"}
	pwNum   = []string{"0", "7", "9", "٣"}
	pwSym   = []string{"!", "#", "-", "_", "€", "→", ".", "@"}
	pwSpace = []string{" ", "\t", " "}
	pwOther = []string{"ǅ", "ʰ", "漢", "Ⅷ", "½", "́", "\x00"}
)

func (g *c19Gen) password(c *Config) string {
	r := g.r
	var sb strings.Builder
	cnt := func(min int) int {
		switch r.Intn(5) {
		case 0:
			return max(0, min-1)
		case 1:
			return min + 1
		default:
			return min
		}
	}
	add := func(set []string, n int) {
		for i := 0; i < n; i++ {
			sb.WriteString(set[r.Intn(len(set))])
		}
	}
	add(pwUpper, cnt(c.PwMinUpper))
	add(pwLower, cnt(c.PwMinLower))
	add(pwNum, cnt(c.PwMinNum))
	add(pwSym, cnt(c.PwMinSym))
	if r.Chance(1, 6) {
		add(pwSpace, 1)
	}
	if r.Chance(1, 12) {
		add(pwOther, 1)
	}
	// pad with lowercase ASCII to around the minimum length (bytes)
	target := cnt(c.PwMinLen)
	for sb.Len() < target {
		sb.WriteByte(byte('a' + r.Intn(26)))
	}
	s := sb.String()
	if r.Chance(1, 4) {
		// shuffle the runes
		rs := []rune(s)
		for i := len(rs) - 1; i > 0; i-- {
			j := r.Intn(i + 1)
			rs[i], rs[j] = rs[j], rs[i]
		}
		s = string(rs)
	}
	if r.Chance(1, 25) {
		s += strings.Repeat("x", 70)
	}
	return s
}

func (g *c19Gen) Next(w *World, n int) *Step {
	if n >= g.max {
		return nil
	}
	r := g.r
	c := &w.Cfg
	b := r.Intn(len(w.Browsers))
	if c.SecondSite && (n == 0 && r.Bool() || r.Chance(1, 15)) {
		// the other site hosted by this process registers a visitor of its own
		return &Step{Kind: "second_site", B: b, Str: map[string]string{"what": []string{"register", "register", "login"}[r.Intn(3)]}}
	}
	switch r.Intn(12) {
	case 0:
		a := r.Intn(len(w.Accts))
		return &Step{Kind: "login", B: b, A: a, Sec: &SecretRef{Kind: "password", A: a}}
	case 1:
		if c.hasModule("confirm") && len(w.Accts) > 0 {
			a := r.Intn(len(w.Accts))
			return &Step{Kind: "confirm", B: b, A: a, Sec: &SecretRef{Kind: "confirm", A: a, Idx: -1}}
		}
	case 2:
		if c.hasModule("logout") {
			return &Step{Kind: "logout", B: b}
		}
	}
	g.n++
	idx := len(w.Accts) + g.n
	pid, email := acctPID(c, idx)
	wellformed := "1"
	dupOf := -1
	switch r.Intn(10) {
	case 0, 1, 2: // duplicate of an existing account (any state)
		dupOf = r.Intn(len(w.Accts))
		pid, email = w.Accts[dupOf].PID, w.Accts[dupOf].Email
	case 3: // malformed identifiers
		wellformed = "0"
		pid = []string{"", " ", "no-at-sign", "@", "a@b", "x@y.C0M", "1abc", "\t", "a@b.co\x00", strings.Repeat("a", 300) + "@x.co"}[r.Intn(10)]
	}
	pw := g.password(c)
	if dupOf >= 0 && r.Chance(1, 3) {
		// somebody who knows the existing account's password "registers" it again
		if real := w.KB.Password[dupOf]; real != "" {
			pw = real
		}
	}
	f := map[string]string{w.pidField(): pid, "password": pw, "confirm_password": pw}
	if c.UseUsername {
		// the e-mail address is an optional extra field in username mode
		switch r.Intn(4) {
		case 0:
		case 1:
			f["email"] = ""
		default:
			f["email"] = email
		}
	}
	switch r.Intn(8) {
	case 0:
		f["confirm_password"] = pw + "x"
	case 1:
		delete(f, "confirm_password")
	case 2:
		f["confirm_password"] = ""
	}
	if r.Chance(1, 3) {
		f["name"] = []string{"Sim User", "", "<b>x</b>", strings.Repeat("n", 200)}[r.Intn(4)]
	}
	if r.Chance(1, 2) {
		hostile := []string{"confirmed", "locked", "attempt_count", "is_admin", "totp_secret_key", "sms_phone_number", "recovery_codes", "pid", "PID", "Password",
			"confirm_selector", "recover_selector", "oauth2_uid", "otps", "rm", "redir"}
		for i := 0; i < 1+r.Intn(3); i++ {
			f[hostile[r.Intn(len(hostile))]] = []string{"true", "1", "2099-01-01T00:00:00Z", "x"}[r.Intn(4)]
		}
	}
	if r.Chance(1, 10) {
		// no password submitted at all (with or without its confirmation)
		delete(f, "password")
		if r.Bool() {
			delete(f, "confirm_password")
		}
	}
	st := &Step{Kind: "register", B: b, A: len(w.Accts), Fields: f, Str: map[string]string{"wellformed": wellformed}}
	if dupOf >= 0 {
		st.A = dupOf
	}
	if r.Chance(1, 12) {
		st.Fault = &FaultDirective{Index: r.Intn(4), Kind: []string{"err", "found"}[r.Intn(2)]}
	}
	_ = fmt.Sprint
	return st
}
