//go:build race

package sim

import "runtime"

// Under the race detector the scheduler's hand-offs must not create
// happens-before edges between tasks (otherwise a serialising scheduler would
// hide every race): synchronisation events are ignored while disabled.
func raceDisable() { runtime.RaceDisable() }
func raceEnable()  { runtime.RaceEnable() }

const raceBuild = true
