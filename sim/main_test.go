package sim

import (
	"crypto/sha256"
	"encoding/hex"
	"encoding/json"
	"flag"
	"fmt"
	"os"
	"os/exec"
	"path/filepath"
	"strings"
	"testing"
	"time"
)

var (
	fProp      = flag.String("sim.prop", "", "property id")
	fTier      = flag.String("sim.tier", "quick", "quick|thorough")
	fSeed      = flag.Uint64("sim.seed", 1, "VERIF_SEED")
	fRuns      = flag.Int("sim.runs", 10, "total number of runs in the batch")
	fShard     = flag.Int("sim.shard", 0, "this worker's shard")
	fNShards   = flag.Int("sim.nshards", 1, "number of shards")
	fOut       = flag.String("sim.out", "", "result file")
	fReplayDir = flag.String("sim.replaydir", "", "where replay files go")
	fReplay    = flag.String("sim.replay", "", "replay file to execute")
	fTrace     = flag.Bool("sim.trace", false, "print the trace when replaying")
	fDigestN   = flag.Int("sim.digestn", 0, "record digests of the first N runs of this shard (determinism self-test)")
	fShrink    = flag.Int("sim.shrink", 300, "re-execution budget for minimisation")
	fDumpPlan  = flag.Uint64("sim.dumpplan", 0, "C20: write the plan generated from this run seed to -sim.out and exit")
)

// WorkerViolation is one minimised violation found by a worker.
type WorkerViolation struct {
	Sig     string `json:"sig"`
	Prop    string `json:"prop"`
	Detail  string `json:"detail"`
	RunSeed uint64 `json:"run_seed"`
	Replay  string `json:"replay"`
	Steps   int    `json:"steps"`
	Repro   bool   `json:"repro"`
	// Flaky "k/n": the minimised plan did not reproduce exactly; the unshrunk
	// plan showed the violation in k of n replays
	Flaky string `json:"flaky,omitempty"`
	How   string `json:"how,omitempty"`
}

// WorkerResult is what a worker process reports to the runner.
type WorkerResult struct {
	Prop          string            `json:"prop"`
	Tier          string            `json:"tier"`
	Seed          uint64            `json:"seed"`
	Shard         int               `json:"shard"`
	Runs          int               `json:"runs"`
	Nontrivial    int               `json:"nontrivial"`
	States        []string          `json:"states"` // hashes of distinct non-trivial end states
	Violations    []WorkerViolation `json:"violations"`
	SigCounts     map[string]int    `json:"sig_counts"`
	Stats         *Stats            `json:"stats"`
	Samples       []interface{}     `json:"samples"`
	Digests       map[string]string `json:"digests,omitempty"`
	WallS         float64           `json:"wall_s"`
	Extra         map[string]int    `json:"extra,omitempty"`
	RequiredReach []string          `json:"required_reach,omitempty"`
}

func mixSeed(seed uint64, j int) uint64 {
	r := NewRng(seed ^ 0x5eed5eed5eed5eed)
	r.s += uint64(j) * 0x9e3779b97f4a7c15
	return r.U64()
}

func shortHash(s string) string {
	h := sha256.Sum256([]byte(s))
	return hex.EncodeToString(h[:8])
}

func writeReplay(dir string, plan Plan) string {
	if dir == "" {
		return ""
	}
	os.MkdirAll(dir, 0o755)
	name := fmt.Sprintf("%s-%d-%s.json", plan.Prop, plan.Seed, shortHash(plan.Expect))
	p := filepath.Join(dir, name)
	b, _ := json.MarshalIndent(plan, "", " ")
	os.WriteFile(p, b, 0o644)
	return p
}

// freshProc executes a plan in a process of its own (this test binary, replay
// mode), so that nothing an earlier run left in process memory takes part.
func freshProc(pl Plan) *RunResult {
	res := &RunResult{Plan: pl}
	dir, err := os.MkdirTemp(filepath.Dir(*fOut), "fresh")
	if err != nil {
		return res
	}
	defer os.RemoveAll(dir)
	pl.Attempts = 0
	b, _ := json.Marshal(pl)
	pf, of := filepath.Join(dir, "plan.json"), filepath.Join(dir, "out.json")
	if os.WriteFile(pf, b, 0o644) != nil {
		return res
	}
	cmd := exec.Command(os.Args[0], "-test.run", "^TestSim$", "-test.timeout", "0", "-sim.replay", pf, "-sim.out", of)
	cmd.Env = os.Environ()
	cmd.Run()
	ob, err := os.ReadFile(of)
	if err != nil {
		return res
	}
	var out struct {
		Digest string      `json:"digest"`
		Viols  []Violation `json:"viols"`
	}
	if json.Unmarshal(ob, &out) != nil {
		return res
	}
	res.Digest, res.Violations = out.Digest, out.Viols
	return res
}

func TestSim(t *testing.T) {
	if *fReplay != "" {
		doReplay(t)
		return
	}
	if *fDumpPlan != 0 {
		plan := c20Generate(*fDumpPlan, *fTier)
		if gd := os.Getenv("GODEBUG"); gd != "" {
			plan.Env = map[string]string{"GODEBUG": gd}
		}
		b, _ := json.MarshalIndent(plan, "", " ")
		os.WriteFile(*fOut, b, 0o644)
		return
	}
	if *fProp == "" {
		t.Skip("no -sim.prop")
	}
	p := profiles[*fProp]
	if p == nil {
		t.Fatalf("unknown property %s", *fProp)
	}
	start := time.Now()
	res := &WorkerResult{Prop: p.ID, Tier: *fTier, Seed: *fSeed, Shard: *fShard, Stats: newStats(), SigCounts: map[string]int{}, Extra: map[string]int{}}
	if *fDigestN > 0 {
		res.Digests = map[string]string{}
	}
	res.RequiredReach = p.RequiredReach
	states := map[string]bool{}
	minimised := map[string]bool{}
	tries := map[string]int{}
	unreproduced := map[string]WorkerViolation{}
	for j := *fShard; j < *fRuns; j += *fNShards {
		rs := mixSeed(*fSeed, j)
		curRunIndex = j
		rr := p.run(t, rs, *fTier)
		res.Runs++
		res.Stats.merge(rr.Stats)
		if rr.Nontrivial || (p.Nontrivial != nil && rr.Stats != nil && p.Nontrivial(rr.Stats)) {
			res.Nontrivial++
			states[shortHash(rr.EndState)] = true
		}
		if res.Digests != nil && len(res.Digests) < *fDigestN {
			res.Digests[fmt.Sprint(rs)] = rr.Digest
		}
		if len(res.Samples) < 2 {
			res.Samples = append(res.Samples, sampleOf(rr))
		}
		for _, v := range rr.Violations {
			sig := v.Sig()
			res.SigCounts[sig]++
			if minimised[sig] || len(minimised) >= 8 {
				continue
			}
			minimised[sig] = true
			tries[sig]++
			plan := rr.Plan
			if v.Plan != nil {
				plan = *v.Plan
			}
			if gd := os.Getenv("GODEBUG"); gd != "" {
				plan.Env = map[string]string{"GODEBUG": gd}
			}
			plan.Expect = sig
			plan.Detail = v.Detail
			inProc := func(pl Plan) *RunResult { return p.replay(t, pl, false) }
			min, mres := shrink(plan, sig, inProc, *fShrink)
			wv := WorkerViolation{Sig: sig, Prop: v.Prop, Detail: v.Detail, RunSeed: rs, Steps: len(min.Steps)}
			accept := func(pl Plan, r *RunResult, how string) {
				min = pl
				min.Digest = r.Digest
				min.Detail = hasSig(r.Violations, sig).Detail
				wv.Detail, wv.Steps, wv.Repro, wv.How = min.Detail, len(pl.Steps), true, how
			}
			if mres != nil && hasSig(mres.Violations, sig) != nil {
				// the minimised plan must reproduce exactly: once more here, and
				// in a process of its own (a replay file is used in a fresh one)
				again := inProc(min)
				fresh := freshProc(min)
				if hasSig(again.Violations, sig) != nil && again.Digest == mres.Digest && hasSig(fresh.Violations, sig) != nil && fresh.Digest == mres.Digest {
					accept(min, mres, "exact")
				}
			}
			if !wv.Repro {
				// Either this tree keeps state across simulated runs (a package-
				// level cache or pool: what an earlier run of this worker left
				// behind took part), or its behaviour is not a function of the
				// schedule. Minimise again, every candidate in a process of its own.
				budget := *fShrink
				if budget > 150 {
					budget = 150
				}
				min2, mres2 := shrink(plan, sig, freshProc, budget)
				if mres2 != nil && hasSig(mres2.Violations, sig) != nil {
					if again := freshProc(min2); hasSig(again.Violations, sig) != nil && again.Digest == mres2.Digest {
						accept(min2, mres2, "exact in a fresh process (state left by earlier runs of the worker process took part in the first observation)")
						// hidden state is seldom a function of the schedule alone
						min.Attempts = 16
					}
				}
			}
			if !wv.Repro {
				// not a function of the schedule: the observation is real all
				// the same; replay the unshrunk plan a few times, fresh processes
				const n = 24
				k := 0
				var last *RunResult
				for i := 0; i < n; i++ {
					if r := freshProc(plan); hasSig(r.Violations, sig) != nil {
						k++
						last = r
					}
				}
				if k > 0 {
					accept(plan, last, fmt.Sprintf("in %d of %d replays of the unshrunk plan", k, n))
					min.Digest, min.Attempts = "", 2*n
					wv.Flaky = fmt.Sprintf("%d/%d", k, n)
				}
			}
			wv.Replay = writeReplay(*fReplayDir, min)
			if !wv.Repro && tries[sig] < 4 {
				// this occurrence owed something to what earlier runs left in
				// the process; a later occurrence of the same signature may not
				delete(minimised, sig)
				unreproduced[sig] = wv
				continue
			}
			delete(unreproduced, sig)
			res.Violations = append(res.Violations, wv)
		}
	}
	for _, wv := range unreproduced {
		res.Violations = append(res.Violations, wv)
	}
	for s := range states {
		res.States = append(res.States, s)
	}
	res.WallS = time.Since(start).Seconds()
	if *fOut != "" {
		b, _ := json.Marshal(res)
		if err := os.WriteFile(*fOut, b, 0o644); err != nil {
			t.Fatal(err)
		}
	} else {
		for sig, n := range res.SigCounts {
			fmt.Printf("SIG x%d %s\n", n, sig)
		}
		for _, v := range res.Violations {
			fmt.Printf("VIOL %s\n   %s\n   replay=%s steps=%d repro=%v\n", v.Sig, v.Detail, v.Replay, v.Steps, v.Repro)
		}
		fmt.Printf("runs=%d nontrivial=%d states=%d requests=%d wall=%.1fs\n", res.Runs, res.Nontrivial, len(res.States), res.Stats.Requests, res.WallS)
		for _, k := range sortedIntKeys(res.Stats.Reach) {
			fmt.Printf("  reach %s=%d\n", k, res.Stats.Reach[k])
		}
		for _, k := range sortedIntKeys(res.Stats.Faults) {
			fmt.Printf("  fault %s=%d\n", k, res.Stats.Faults[k])
		}
	}
}

func sampleOf(rr *RunResult) interface{} {
	var ss []string
	for i, s := range rr.Plan.Steps {
		if i >= 12 {
			ss = append(ss, fmt.Sprintf("... %d more steps", len(rr.Plan.Steps)-i))
			break
		}
		ss = append(ss, s.String())
	}
	return map[string]interface{}{
		"run_seed": rr.Plan.Seed, "modules": strings.Join(rr.Plan.Cfg.Modules, ","), "setups": strings.Join(rr.Plan.Cfg.Setups, ","),
		"json": rr.Plan.Cfg.JSON, "mode": rr.Plan.Mode, "steps": ss, "end_state": rr.EndState, "violations": len(rr.Violations),
	}
}

func doReplay(t *testing.T) {
	b, err := os.ReadFile(*fReplay)
	if err != nil {
		t.Fatal(err)
	}
	var plan Plan
	if err := json.Unmarshal(b, &plan); err != nil {
		t.Fatal(err)
	}
	p := profiles[plan.Prop]
	if p == nil {
		t.Fatalf("unknown property %s", plan.Prop)
	}
	rr := p.replay(t, plan, *fTrace)
	for i := 1; i < plan.Attempts && hasSig(rr.Violations, plan.Expect) == nil; i++ {
		rr = p.replay(t, plan, *fTrace)
	}
	if *fTrace {
		for _, l := range rr.Trace {
			fmt.Println(l)
		}
	}
	got := hasSig(rr.Violations, plan.Expect)
	out := map[string]interface{}{"prop": plan.Prop, "expect": plan.Expect, "reproduced": got != nil, "digest_match": plan.Digest == "" || plan.Digest == rr.Digest, "digest": rr.Digest}
	var sigs []string
	for _, v := range rr.Violations {
		sigs = append(sigs, v.Sig())
	}
	out["violations"] = sigs
	out["viols"] = rr.Violations
	if got != nil {
		out["detail"] = got.Detail
	}
	jb, _ := json.Marshal(out)
	fmt.Printf("REPLAY %s\n", jb)
	if *fOut != "" {
		os.WriteFile(*fOut, jb, 0o644)
	}
}
