package sim

import (
	"fmt"
	"strings"
	"unicode"

	"github.com/volatiletech/authboss/v3"
	"golang.org/x/crypto/bcrypt"
)

// policyVerdict is the independent evaluator of the default password policy:
// "ok", "bad", or "unknown" when the password contains runes whose class the
// statement does not pin down (titlecase / modifier / other letters, letter
// and other numbers, marks, controls, format characters).
func policyVerdict(c *Config, pw string) string {
	var upper, lower, num, sym, space int
	for _, r := range pw {
		switch {
		case unicode.Is(unicode.Lu, r):
			upper++
		case unicode.Is(unicode.Ll, r):
			lower++
		case unicode.Is(unicode.Nd, r):
			num++
		case unicode.Is(unicode.Zs, r) || r == '\t' || r == '\n' || r == '\r' || r == '\v' || r == '\f':
			space++
		case unicode.IsLetter(r), unicode.Is(unicode.Nl, r), unicode.Is(unicode.No, r), unicode.IsMark(r), unicode.IsControl(r), unicode.Is(unicode.Cf, r),
			unicode.Is(unicode.Zl, r), unicode.Is(unicode.Zp, r), r == unicode.ReplacementChar:
			return "unknown"
		default:
			sym++
		}
	}
	if len(pw) < c.PwMinLen || upper < c.PwMinUpper || lower < c.PwMinLower || num < c.PwMinNum || sym < c.PwMinSym {
		return "bad"
	}
	if space > 0 && !c.PwAllowSpace {
		return "bad"
	}
	return "ok"
}

// c06Oracle: a password change revokes the old password, the recovery link and
// the remember tokens, and touches nobody else.
type c06Oracle struct {
	real    authboss.Hasher
	changed map[int]bool // accounts with at least one acknowledged change
}

func newC06Oracle(w *World) Oracle {
	return &c06Oracle{real: authboss.NewBCryptHasher(bcrypt.MinCost), changed: map[int]bool{}}
}

func candClass(cands map[string]string, v string) string { return cands[v] }

func (c *c06Oracle) Check(w *World, o *Obs) []Violation {
	var out []Violation
	st := o.Step
	pid, newPw, ack := "", "", false
	switch st.Kind {
	case "recover_end":
		if !o.IsHTTP || o.Method != "POST" {
			break
		}
		newPw = w.lastSec2
		if o.Replay {
			// the replayed body carries the password of the original request
			newPw = formValue(o.ReqBody, "password", w.Cfg.JSON)
		}
		tok := o.presented("token")
		for _, p := range sortedRowKeys(o.RowsAfter) {
			after := o.RowsAfter[p]
			if before := o.RowsBefore[p]; before != nil && before.Password != after.Password {
				pid, ack = p, true
			}
		}
		if !ack && tok != nil && tok.Known != nil && tok.Known.Kind == "recover" && tok.Status == "valid" && tok.Known.Acct >= 0 &&
			!o.errorOutcome() && o.Location == "/ok/recover" && o.RespStatus != "failure" && o.SessAfter["flash_error"] == "" {
			// success acknowledged
			pid, ack = w.Accts[tok.Known.Acct].PID, true
		}
		if ack && tok != nil && tok.Known != nil && tok.Status == "spent" {
			out = append(out, viol("C06", "spent_token_reused", st.Kind, o, fmt.Sprintf("the recovery token that already authorised a change changed the password of %s again", pid)))
		}
	case "op_update_password":
		pid = w.pidOf(st.A, st)
		newPw = w.lastSec
		ack = o.OpErr == "" && o.RowsBefore[pid] != nil && o.Panic == ""
	}
	if ack && (o.errorOutcome() || o.OpErr != "" || o.Panic != "") {
		// the request was reported as failed: it may have lost part of its
		// own effect (C18 judges what a failed request may and may not do)
		w.Stats.Reach["c06_change_reported_failed"]++
		ack = false
	}
	if ack && o.RowsAfter[pid] != nil {
		a := w.acctByPID(pid)
		after := o.RowsAfter[pid]
		c.changed[a] = true
		w.Stats.Reach["c06_change_"+st.Kind]++
		if err := c.real.CompareHashAndPassword(after.Password, newPw); err != nil {
			out = append(out, viol("C06", "new_password_not_set", st.Kind, o, fmt.Sprintf("after an acknowledged change the stored value of %s does not verify the new password", pid)))
		}
		if len(newPw) >= 4 && strings.Contains(after.Password, newPw) {
			out = append(out, viol("C06", "plaintext_stored", st.Kind, o, fmt.Sprintf("stored password field of %s contains the plaintext", pid)))
		}
		cands := map[string]string{}
		if old := w.KB.Password[a]; old != "" && old != newPw {
			cands[old] = "old"
		}
		for _, old := range w.KB.OldPw[a] {
			if old != newPw && old != "" {
				cands[old] = "old"
			}
		}
		for oa, p := range w.KB.Password {
			if oa != a && p != newPw && p != "" {
				cands[p] = "foreign"
			}
		}
		cands[newPw+"x"] = "extension"
		if newPw != "" {
			// (bcrypt itself cannot tell the empty password from NUL bytes:
			// its key schedule cycles over "password NUL")
			cands[newPw+"\x00"] = "extension"
		}
		if len(newPw) > 1 {
			cands[newPw[:len(newPw)-1]] = "prefix"
		}
		cands[""] = "empty"
		delete(cands, newPw)
		for _, cand := range sortedKeys(cands) {
			if c.real.CompareHashAndPassword(after.Password, cand) == nil {
				lenClass := "lt72"
				if len(newPw) >= 72 {
					lenClass = "ge72"
				}
				out = append(out, viol("C06", "verifies_other", st.Kind, o,
					fmt.Sprintf("stored hash of %s (new password of %d bytes) also verifies a different value (%s, %d bytes)", pid, len(newPw), cands[cand], len(cand)),
					"cand", cands[cand], "len", lenClass))
			}
		}
		for _, t := range o.RMAfter {
			if strings.HasPrefix(t, pid+"|") {
				out = append(out, viol("C06", "remember_tokens_survive", st.Kind, o, fmt.Sprintf("remember tokens of %s survive the password change", pid)))
				break
			}
		}
		nBefore := 0
		for _, t := range o.RMBefore {
			if strings.HasPrefix(t, pid+"|") {
				nBefore++
			}
		}
		if nBefore > 0 {
			w.Stats.Reach["c06_tokens_revoked"]++
		}
		// nobody else is affected
		for p, before := range o.RowsBefore {
			if p == pid {
				continue
			}
			if af := o.RowsAfter[p]; af == nil || af.canon() != before.canon() {
				out = append(out, viol("C06", "other_account_changed", st.Kind, o, fmt.Sprintf("password change of %s altered the row of %s", pid, p)))
			}
		}
		// a request that also carries another account's valid remember cookie
		// has that cookie rotated by the middleware: not an effect of the change
		rotated := ""
		if ck := o.presented("cookie"); ck != nil && o.uidBefore() == "" && ck.Known != nil && ck.Known.Kind == "rm" && usable(ck.Status) &&
			ck.Known.Acct >= 0 && ck.Known.Acct < len(w.Accts) && w.Accts[ck.Known.Acct].PID != pid {
			rotated = w.Accts[ck.Known.Acct].PID
			w.Stats.Reach["c06_change_request_carried_other_cookie"]++
		}
		others := func(l []string) string {
			var keep []string
			for _, t := range l {
				if !strings.HasPrefix(t, pid+"|") && !(rotated != "" && strings.HasPrefix(t, rotated+"|")) {
					keep = append(keep, t)
				}
			}
			return strings.Join(keep, ",")
		}
		if others(o.RMBefore) != others(o.RMAfter) {
			out = append(out, viol("C06", "other_tokens_changed", st.Kind, o, fmt.Sprintf("password change of %s altered other accounts' remember tokens", pid)))
		}
	}

	// later real logins
	if st.Kind == "login" && o.IsHTTP {
		lp := w.pidOf(st.A, st)
		a := w.acctByPID(lp)
		row := o.RowsBefore[lp]
		if p := o.presented("password"); p != nil && a >= 0 && row != nil && c.changed[a] {
			uid, _ := w.loginPut(o)
			tp, _ := o.sessPut("totp_pending")
			sp, _ := o.sessPut("sms_pending")
			accepted := uid == lp || tp == lp || sp == lp
			isOld := false
			for _, old := range w.KB.OldPw[a] {
				if old == p.Value && old != w.KB.Password[a] {
					isOld = true
				}
			}
			switch {
			case isOld && accepted:
				out = append(out, viol("C06", "old_password_accepted", st.Kind, o, fmt.Sprintf("%s logged in with a password that was replaced earlier", lp)))
			case isOld:
				w.Stats.Reach["c06_old_password_refused"]++
			case p.Value == w.KB.Password[a] && p.Value != "":
				gated := w.Cfg.hasModule("lock") && row.Locked.After(o.Now) || w.Cfg.hasModule("lock") && row.Locked.Equal(o.Now) ||
					w.Cfg.hasModule("confirm") && !row.Confirmed
				if !accepted && !gated && o.FaultFired == "" {
					out = append(out, viol("C06", "new_password_refused", st.Kind, o, fmt.Sprintf("%s could not log in with the password set by the last acknowledged change", lp)))
				} else if accepted {
					w.Stats.Reach["c06_new_password_accepted"]++
				}
			}
		}
	}
	// cookies issued before a change
	if ck := o.presented("cookie"); ck != nil && o.IsHTTP && ck.Known != nil && (ck.Status == "revoked" || ck.Status == "spent" && ck.Known.BeforeChange) && o.uidBefore() == "" && ck.Known.Acct >= 0 && ck.Known.Acct < len(w.Accts) &&
		w.rememberActive() {
		pidc := w.Accts[ck.Known.Acct].PID
		if uid, ok := hasPut(o.SessEvents, "uid"); ok && uid == pidc && st.Kind == "probe" {
			out = append(out, viol("C06", "revoked_cookie_authenticated", "middleware", o, fmt.Sprintf("a remember cookie issued to %s before its password change still logs it in", pidc)))
		} else if st.Kind == "probe" {
			w.Stats.Reach["c06_revoked_cookie_refused"]++
		}
	}
	return out
}

func (c *c06Oracle) Finish(w *World) []Violation {
	var out []Violation
	seen := map[string]string{}
	for _, pid := range w.DB.order {
		h := w.DB.rows[pid].Password
		if h == "" {
			continue
		}
		if other, ok := seen[h]; ok {
			out = append(out, viol("C06", "unsalted", "storage", nil, fmt.Sprintf("accounts %s and %s hold the identical password hash", other, pid)))
		}
		seen[h] = pid
	}
	return out
}

// formValue extracts a field from a request body (form or JSON).
func formValue(body, key string, isJSON bool) string {
	if isJSON {
		m := map[string]string{}
		if jsonUnmarshal(body, &m) == nil {
			return m[key]
		}
		return ""
	}
	return parseForm(body)[key]
}
