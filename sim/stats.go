package sim

import (
	"sort"
	"time"
)

// Stats are per-run counters, merged across runs by the worker and across
// workers by the runner.
type Stats struct {
	Requests int            `json:"requests"`
	Steps    int            `json:"steps"`
	SimTime  time.Duration  `json:"sim_time_ns"`
	Faults   map[string]int `json:"faults"`
	Reach    map[string]int `json:"reach"`
	StepKind map[string]int `json:"step_kinds"`
}

func newStats() *Stats {
	return &Stats{Faults: map[string]int{}, Reach: map[string]int{}, StepKind: map[string]int{}}
}

func (s *Stats) merge(o *Stats) {
	if o == nil {
		return
	}
	s.Requests += o.Requests
	s.Steps += o.Steps
	s.SimTime += o.SimTime
	for k, v := range o.Faults {
		s.Faults[k] += v
	}
	for k, v := range o.Reach {
		s.Reach[k] += v
	}
	for k, v := range o.StepKind {
		s.StepKind[k] += v
	}
}

func sortedIntKeys(m map[string]int) []string {
	ks := make([]string, 0, len(m))
	for k := range m {
		ks = append(ks, k)
	}
	sort.Strings(ks)
	return ks
}
