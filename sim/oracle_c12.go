package sim

import (
	"fmt"
	"strings"
)

// c12Oracle: one-time secrets are consumed by the login they enable.
type c12Oracle struct {
	lastAcceptedTOTP map[string]string // pid -> digits of the TOTP code accepted last for it
	lastWasEnrol     map[string]bool   // pid -> that acceptance was the enrolment confirmation
	rejectedSince    map[string]int    // pid -> refused TOTP submissions since then
	// verifiedSince: a code that verifies was submitted since then and the
	// login was refused for another reason (a gate, a failure): the library
	// may count that as the last accepted code - the statement does not say
	verifiedSince map[string]bool
}

func newC12Oracle(w *World) Oracle {
	return &c12Oracle{lastAcceptedTOTP: map[string]string{}, lastWasEnrol: map[string]bool{}, rejectedSince: map[string]int{}, verifiedSince: map[string]bool{}}
}

func countCSV(s string) int {
	if s == "" {
		return 0
	}
	return strings.Count(s, ",") + 1
}

// actingPID is the user a 2FA request acts on: session user, else pending.
func actingPID(o *Obs) string {
	if uid := o.uidBefore(); uid != "" {
		return uid
	}
	k := strings.SplitN(o.Step.Kind, "_", 2)[0] + "_pending"
	return o.SessBefore[k]
}

func (c *c12Oracle) Check(w *World, o *Obs) []Violation {
	var out []Violation
	for pid, r := range o.RowsAfter {
		if n := countCSV(r.OTPs); n > 5 {
			out = append(out, viol("C12", "too_many_otps", o.Step.Kind, o, fmt.Sprintf("account %s holds %d one-time passwords", pid, n)))
		}
	}
	if !o.IsHTTP || o.Method != "POST" {
		return out
	}
	st := o.Step
	uidPut, hasUID := w.loginPut(o)
	switch st.Kind {
	case "otp_login":
		pid := w.pidOf(st.A, st)
		a := w.acctByPID(pid)
		tp, _ := o.sessPut("totp_pending")
		sp, _ := o.sessPut("sms_pending")
		accepted := pid != "" && (hasUID && uidPut == pid || tp == pid || sp == pid)
		p := o.presented("otp")
		if p == nil {
			break
		}
		if accepted {
			w.Stats.Reach["c12_otp_accepted"]++
			if !(p.Known != nil && p.Known.Kind == "otp" && p.Known.Acct == a && usable(p.Status)) {
				stt := "unknown"
				if p.Known != nil {
					stt = p.Status
					if p.Known.Acct != a {
						stt = "foreign"
					}
				}
				out = append(out, viol("C12", "otp_accepted", st.Kind, o,
					fmt.Sprintf("one-time password accepted for %s although it is %s for that account (replay=%v)", pid, stt, o.Replay), "status", stt))
			}
			if row := o.RowsAfter[pid]; row != nil && otpMatches(row.OTPs, p.Value) {
				out = append(out, viol("C12", "otp_not_removed", st.Kind, o,
					fmt.Sprintf("one-time password accepted for %s is still in the stored list after the response", pid)))
			}
		} else if p.Known != nil && p.Status == "spent" {
			w.Stats.Reach["c12_spent_otp_rejected"]++
		}
	case "totp_validate", "sms_validate", "totp_remove", "sms_remove":
		pid := actingPID(o)
		if strings.HasSuffix(st.Kind, "_validate") && hasUID && uidPut != "" && uidPut != pid &&
			o.SessBefore[strings.SplitN(st.Kind, "_", 2)[0]+"_pending"] == uidPut {
			// the session named somebody who could not be loaded (deleted, or
			// the store failed): the library went on with the parked login,
			// and the acceptance belongs to that account
			pid = uidPut
		}
		a := w.acctByPID(pid)
		if pid == "" || a < 0 {
			break
		}
		before, after := o.RowsBefore[pid], o.RowsAfter[pid]
		if before == nil || after == nil {
			break
		}
		accepted := false
		if strings.HasSuffix(st.Kind, "_validate") {
			accepted = hasUID && uidPut == pid
		} else {
			accepted = before.TOTPSecretKey != "" && after.TOTPSecretKey == "" && st.Kind == "totp_remove" ||
				before.SMSPhone != "" && after.SMSPhone == "" && st.Kind == "sms_remove"
		}
		if rc := o.presented("recovery"); rc != nil && rc.Value != "" {
			if accepted {
				w.Stats.Reach["c12_recovery_accepted"]++
				if !(rc.Known != nil && rc.Known.Kind == "recovery" && rc.Known.Acct == a && usable(rc.Status)) {
					stt := "unknown"
					if rc.Known != nil {
						stt = rc.Status
						if rc.Known.Acct != a {
							stt = "foreign"
						}
					}
					out = append(out, viol("C12", "recovery_accepted", st.Kind, o,
						fmt.Sprintf("recovery code accepted for %s although it is %s for that account", pid, stt), "status", stt))
				}
				if recoveryMatches(after.RecoveryCodes, rc.Value) {
					out = append(out, viol("C12", "recovery_not_removed", st.Kind, o,
						fmt.Sprintf("recovery code accepted for %s still verifies against the stored list", pid)))
				}
			} else if rc.Known != nil && rc.Status == "spent" {
				w.Stats.Reach["c12_spent_recovery_rejected"]++
			}
			break
		}
		code := o.presented("code")
		if code == nil || code.Value == "" {
			if st.Kind == "totp_validate" {
				c.rejectedSince[pid]++
			}
			break
		}
		if st.Kind == "sms_validate" {
			if accepted {
				w.Stats.Reach["c12_sms_accepted"]++
				if !(code.Known != nil && code.Known.Kind == "sms" && code.Known.Browser == st.B && usable(code.Status)) ||
					code.Known.Acct >= 0 && code.Known.Acct != a {
					stt := "unknown"
					if code.Known != nil {
						stt = code.Status
						if code.Known.Browser != st.B {
							stt = "foreign_session"
						} else if code.Known.Acct >= 0 && code.Known.Acct != a {
							// sent to the phone of another account
							stt = "foreign_account"
						}
					}
					out = append(out, viol("C12", "sms_accepted", st.Kind, o,
						fmt.Sprintf("SMS code accepted for %s although it is %s", pid, stt), "status", stt))
				}
				if o.SessAfter["sms_secret"] == code.Value {
					out = append(out, viol("C12", "sms_not_consumed", st.Kind, o,
						fmt.Sprintf("SMS code accepted for %s is still the session's expected code after the response", pid)))
				}
			} else if code.Known != nil && code.Status == "spent" {
				w.Stats.Reach["c12_spent_sms_rejected"]++
			}
		}
		if st.Kind == "totp_validate" && before.TOTPSecretKey != "" {
			// the code is its digits: white space around them does not make
			// it another code. "Twice in a row" is about acceptances: once a
			// code was accepted it is not accepted again until another code
			// has been, whatever was submitted and refused in between.
			digits := strings.TrimSpace(code.Value)
			last, had := c.lastAcceptedTOTP[pid]
			repeat := had && last == digits && w.Cfg.TOTPOneTime
			if accepted && repeat && c.verifiedSince[pid] {
				w.Stats.Reach["c12_totp_repeat_after_verified_but_refused_code"]++
			} else if accepted && repeat {
				how := "verbatim"
				if digits != code.Value {
					how = "whitespace"
				}
				if c.lastWasEnrol[pid] {
					how += "_after_enrolment"
				}
				if c.rejectedSince[pid] > 0 {
					how += "_after_refused_attempt"
				}
				out = append(out, viol("C12", "totp_repeat", st.Kind, o,
					fmt.Sprintf("TOTP code %q accepted for %s although it is the code accepted last (replay protection enabled; %d refused submissions in between)", code.Value, pid, c.rejectedSince[pid]), "how", how))
			}
			if accepted {
				w.Stats.Reach["c12_totp_accepted"]++
				c.lastAcceptedTOTP[pid] = digits
				c.lastWasEnrol[pid] = false
				c.rejectedSince[pid] = 0
				c.verifiedSince[pid] = false
			} else {
				if !repeat && totpVerdict(before.TOTPSecretKey, digits, o.Now) != "stale" {
					c.verifiedSince[pid] = true
				}
				if repeat {
					w.Stats.Reach["c12_totp_repeat_rejected"]++
					if digits != code.Value {
						w.Stats.Reach["c12_totp_whitespace_repeat_rejected"]++
					}
					if c.lastWasEnrol[pid] {
						w.Stats.Reach["c12_totp_enrol_code_repeat_rejected"]++
					}
					if c.rejectedSince[pid] > 0 {
						w.Stats.Reach["c12_totp_repeat_rejected_after_refused_attempt"]++
					}
				}
				c.rejectedSince[pid]++
			}
		}
	case "totp_confirm":
		// the code that proved the new secret at enrolment is the account's
		// last accepted code
		pid := o.uidBefore()
		before, after := o.RowsBefore[pid], o.RowsAfter[pid]
		code := o.presented("code")
		if pid == "" || before == nil || after == nil || code == nil {
			break
		}
		if before.TOTPSecretKey != after.TOTPSecretKey && after.TOTPSecretKey != "" {
			c.lastAcceptedTOTP[pid] = strings.TrimSpace(code.Value)
			c.lastWasEnrol[pid] = true
			c.rejectedSince[pid] = 0
			c.verifiedSince[pid] = false
		}
	}
	return out
}

func (c *c12Oracle) Finish(w *World) []Violation { return nil }
