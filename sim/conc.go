package sim

import (
	"context"
	"encoding/json"
	"fmt"
	"io"
	"net/http"
	"net/http/httptest"
	"net/url"
	"os"
	"strings"
	"testing"
	"testing/synctest"
	"time"
)

// C20: one configured instance serves concurrent requests without races or
// cross-talk. Clients on disjoint accounts run scripts; the seeded scheduler
// decides every interleaving at seam granularity; the binary is built with
// -race; each client's transcript must equal the transcript of the same script
// run alone.

// A C20 plan's steps are the clients' script actions: Step.B is the client,
// Step.Kind the action. Order within a client is the script order.
//
// actions: login login_rm login_wrong logout otp_add otp_login recover_start
// recover_end register confirm probe totp_login sms_login oauth2

type concClient struct {
	n         int
	w         *World
	task      *ctask
	pid       string
	email     string
	pw        string
	lastOTP   string
	script    []Step
	log       []string // transcript
	mailsSeen int
	regN      int
}

func (c *concClient) tr(format string, args ...interface{}) {
	c.log = append(c.log, fmt.Sprintf(format, args...))
}

// ownMails returns the mails addressed to this client's account(s).
func (c *concClient) ownMails(addr string) []MailRec {
	c.w.mu.Lock()
	defer c.w.mu.Unlock()
	var out []MailRec
	for _, m := range c.w.Mails {
		for _, to := range m.To {
			if to == addr {
				out = append(out, m)
				break
			}
		}
	}
	return out
}

func (c *concClient) ownSMS(number string) []SMSRec {
	c.w.mu.Lock()
	defer c.w.mu.Unlock()
	var out []SMSRec
	for _, m := range c.w.SMSes {
		if m.Number == number {
			out = append(out, m)
		}
	}
	return out
}

// awaitMail waits (yielding to the scheduler) until a mail of the kind to addr
// beyond the first `have` exists; the user is waiting for the e-mail.
func (c *concClient) awaitMail(addr, kind string, have int) string {
	for i := 0; i < 400; i++ {
		n := 0
		for _, m := range c.ownMails(addr) {
			if m.Kind == kind {
				n++
				if n > have {
					return m.Token
				}
			}
		}
		c.w.sched.yield(c.w, "client.await_mail")
	}
	return ""
}

func countKind(ms []MailRec, kind string) int {
	n := 0
	for _, m := range ms {
		if m.Kind == kind {
			n++
		}
	}
	return n
}

// do sends one request through the full handler chain on this task's goroutine.
func (c *concClient) do(method, path string, q url.Values, fields map[string]string) (*httptest.ResponseRecorder, map[string]interface{}) {
	w := c.w
	w.sched.yield(w, "client.request")
	body, ctype := "", ""
	if fields != nil {
		body, ctype = w.encodeBody(fields)
	} else if w.Cfg.JSON {
		ctype = "application/json"
	}
	u := &url.URL{Path: path, RawQuery: q.Encode()}
	ctx, cancel := context.WithCancel(context.Background())
	req := &http.Request{Method: method, URL: u, Proto: "HTTP/1.1", ProtoMajor: 1, ProtoMinor: 1, Header: http.Header{}, Host: "site.example",
		RemoteAddr: "192.0.2.1:1234", RequestURI: u.RequestURI(), Body: io.NopCloser(strings.NewReader(body)), ContentLength: int64(len(body))}
	req = req.WithContext(ctx)
	req.Header.Set(browserHeader, fmt.Sprint(c.n))
	if ctype != "" {
		req.Header.Set("Content-Type", ctype)
	}
	rec := httptest.NewRecorder()
	rec.Header().Set(browserHeader, fmt.Sprint(c.n))
	panicked := ""
	func() {
		defer func() {
			if r := recover(); r != nil {
				panicked = fmt.Sprint(r)
			}
		}()
		w.Handler.ServeHTTP(rec, req)
	}()
	cancel()
	br := w.Browsers[c.n]
	row := "<none>"
	if r := w.DB.get(c.pid); r != nil {
		row = r.canon()
	}
	c.tr("%s %s %s -> %d loc=%q body=%q panic=%q", method, path, body, rec.Code, rec.Header().Get("Location"), rec.Body.String(), panicked)
	c.tr("   sess=%s cook=%s", canonMap(br.Session), canonMap(br.Cookies))
	c.tr("   row=%s", row)
	var js map[string]interface{}
	json.Unmarshal(rec.Body.Bytes(), &js)
	return rec, js
}

func (c *concClient) runScript() {
	w := c.w
	mp := w.mountPath
	pidf := w.pidField()
	for _, st := range c.script {
		switch st.Kind {
		case "login", "login_rm", "login_wrong":
			f := map[string]string{pidf: c.pid, "password": c.pw}
			if st.Kind == "login_rm" {
				f["rm"] = "true"
			}
			if st.Kind == "login_wrong" {
				f["password"] = "Wr0ng-pass!"
			}
			c.do("POST", mp("/login"), nil, f)
		case "logout":
			var f map[string]string
			if w.Cfg.LogoutMethod == "POST" {
				f = map[string]string{}
			}
			c.do(w.Cfg.LogoutMethod, mp("/logout"), nil, f)
		case "otp_add":
			_, js := c.do("POST", mp("/otp/add"), nil, map[string]string{})
			if v, ok := js["otp"].(string); ok {
				c.lastOTP = v
			}
		case "otp_login":
			c.do("POST", mp("/otp/login"), nil, map[string]string{pidf: c.pid, "password": c.lastOTP})
		case "recover_start":
			c.do("POST", mp("/recover"), nil, map[string]string{pidf: c.pid})
		case "recover_end":
			have := 0
			fmt.Sscanf(st.str("have"), "%d", &have)
			tok := c.awaitMail(c.email, "recover", have)
			c.pwNext()
			c.do("POST", mp("/recover/end"), nil, map[string]string{"token": tok, "password": c.pw, "confirm_password": c.pw})
		case "register":
			c.regN++
			pid := fmt.Sprintf("c%dr%d@x.co", c.n, c.regN)
			f := map[string]string{pidf: pid, "password": goodPw, "confirm_password": goodPw}
			if w.Cfg.UseUsername {
				f[pidf] = fmt.Sprintf("c%dr%d", c.n, c.regN)
				f["email"] = pid
			}
			c.do("POST", mp("/register"), nil, f)
			if w.Cfg.hasModule("confirm") {
				tok := c.awaitMail(pid, "confirm", 0)
				if w.Cfg.MailRouteMethod == "GET" {
					c.do("GET", mp("/confirm"), url.Values{"cnf": {tok}}, nil)
				} else {
					c.do("POST", mp("/confirm"), nil, map[string]string{"cnf": tok})
				}
			}
		case "page":
			// a form page (handlers that hand the responder no data of their own)
			c.do("GET", mp(st.str("path")), nil, nil)
		case "probe":
			c.do("GET", st.str("path"), nil, nil)
		case "drop_session":
			w.Browsers[c.n].Session = map[string]string{}
		case "totp_login":
			c.do("POST", mp("/login"), nil, map[string]string{pidf: c.pid, "password": c.pw})
			if r := w.DB.get(c.pid); r != nil && r.TOTPSecretKey != "" {
				c.do("POST", mp("/2fa/totp/validate"), nil, map[string]string{"code": totpAt(r.TOTPSecretKey, time.Now())})
			}
		case "sms_login":
			c.do("POST", mp("/login"), nil, map[string]string{pidf: c.pid, "password": c.pw})
			if r := w.DB.get(c.pid); r != nil && r.SMSPhone != "" {
				code := ""
				if l := c.ownSMS(r.SMSPhone); len(l) > 0 {
					code = l[len(l)-1].Code
				}
				c.do("POST", mp("/2fa/sms/validate"), nil, map[string]string{"code": code})
			}
		case "oauth2":
			prov := w.Cfg.Providers[0]
			c.do("GET", mp("/oauth2/"+prov), nil, nil)
			state := w.Browsers[c.n].Session["oauth2_state"]
			code := w.IdP.Grant(IdPUser{Provider: prov, UID: fmt.Sprintf("idp-c%d", c.n), Email: fmt.Sprintf("idp-c%d@idp.example", c.n)})
			c.do("GET", mp("/oauth2/callback/"+prov), url.Values{"state": {state}, "code": {code}}, nil)
		}
	}
}

// finishTranscript appends the client's own mail once every task has finished.
func (c *concClient) finishTranscript() {
	for _, m := range c.ownMails(c.email) {
		c.tr("mail kind=%s token=%s text=%s", m.Kind, m.Token, clip(m.Text, 600))
	}
}

func (c *concClient) pwNext() { c.pw = fmt.Sprintf("N3w-Passw0rd!c%d-%d", c.n, len(c.log)) }

func concConfig(r *Rng, nClients int) Config {
	c := baseConfig(r)
	c.dropSetups("expire")
	c.EmailAuth2FA = false
	c.NBrowsers = nClients
	c.NAccounts = nClients
	c.Accounts = nil
	for i := 0; i < nClients; i++ {
		a := AcctSpec{Confirmed: true}
		if c.hasSetup("totp") && i%3 == 1 {
			a.TOTP = true
		}
		if c.hasSetup("sms") && i%3 == 2 {
			a.SMS = true
		}
		c.Accounts = append(c.Accounts, a)
	}
	c.SMTPMailer = r.Bool()
	c.LockAfter = 5
	return c
}

func concScripts(r *Rng, c *Config, nClients int, tier string) []Step {
	var out []Step
	for i := 0; i < nClients; i++ {
		acts := []string{"login", "probe", "logout"}
		pool := []string{"login", "login", "logout", "probe", "login_wrong"}
		if c.hasModule("remember") {
			pool = append(pool, "login_rm", "drop_session")
		}
		if c.hasModule("otp") {
			pool = append(pool, "otp_add", "otp_login")
		}
		if c.hasModule("recover") {
			pool = append(pool, "recover_start", "recover_start")
		}
		if c.hasModule("register") {
			pool = append(pool, "register")
		}
		if c.hasModule("oauth2") {
			pool = append(pool, "oauth2")
		}
		pool = append(pool, "page")
		n := 2 + r.Intn(steps(tier, 5, 9))
		acts = acts[:0]
		recovers := 0
		spec := c.Accounts[i]
		for j := 0; j < n; j++ {
			a := pool[r.Intn(len(pool))]
			if spec.TOTP && (a == "login" || a == "login_rm") {
				a = "totp_login"
			}
			if spec.SMS && (a == "login" || a == "login_rm") {
				a = "sms_login"
			}
			acts = append(acts, a)
		}
		for _, a := range acts {
			st := Step{Kind: a, B: i}
			switch a {
			case "page":
				pages := []string{"/login"}
				if c.hasModule("register") {
					pages = append(pages, "/register")
				}
				if c.hasModule("recover") {
					pages = append(pages, "/recover")
				}
				if c.hasSetup("totp") {
					pages = append(pages, "/2fa/totp/validate")
				}
				if c.hasSetup("sms") {
					pages = append(pages, "/2fa/sms/validate")
				}
				st.Str = map[string]string{"path": pages[r.Intn(len(pages))]}
			case "probe":
				st.Str = map[string]string{"path": []string{"/probe/open", "/probe/mw/0/0/0/p", "/probe/mw/1/1/0/p"}[r.Intn(3)]}
			case "recover_start":
				// every request is followed by its own completion: with two
				// outstanding mails their arrival order would be a legitimate
				// source of difference between schedules
				out = append(out, st)
				r.Chance(2, 3)
				out = append(out, Step{Kind: "recover_end", B: i, Str: map[string]string{"have": fmt.Sprint(recovers)}})
				recovers++
				continue
			}
			out = append(out, st)
		}
	}
	return out
}

// concExecOnce runs the given clients' scripts under the concurrent scheduler
// in one world and returns each client's transcript and the pick sequence.
// lastExtSeen: scheduling points of the last concExecOnce at which a library
// goroutine was blocked outside the simulation (see concSched.settle)
var lastExtSeen int

func concExecOnce(t *testing.T, plan Plan, only int, schedSeed uint64) (map[int][]string, []string, string) {
	trs := map[int][]string{}
	var picks []string
	errStr := ""
	extSeen := 0
	defer func() { lastExtSeen = extSeen }()
	var hp interface{}
	func() {
		defer func() {
			if r := recover(); r != nil {
				hp = r
			}
		}()
		bubble(t, func(t *testing.T) {
			w := NewWorld(t, plan.Cfg, plan.Seed, true)
			defer w.Close()
			cs := w.sched.(*concSched)
			cs.rng = NewRng(schedSeed)
			if len(plan.Extra) > 0 {
				var ex struct {
					Hold string `json:"hold"`
				}
				if json.Unmarshal(plan.Extra, &ex) == nil {
					cs.holdSite = ex.Hold
				}
			}
			w.rand.perTask = func() *Rng {
				if tk := cs.lookup(goid()); tk != nil {
					return tk.rng
				}
				return nil
			}
			scripts := map[int][]Step{}
			var ids []int
			for _, st := range plan.Steps {
				if only >= 0 && st.B != only {
					continue
				}
				if _, ok := scripts[st.B]; !ok {
					ids = append(ids, st.B)
				}
				scripts[st.B] = append(scripts[st.B], st)
			}
			sortInts(ids)
			var clients []*concClient
			for _, id := range ids {
				if id < 0 || id >= len(w.Accts) {
					continue
				}
				a := w.Accts[id]
				c := &concClient{n: id, w: w, pid: a.PID, email: a.Email, pw: w.KB.Password[id], script: scripts[id]}
				clients = append(clients, c)
				c.task = cs.claimClient(c.n, NewRng(plan.Seed^uint64(0x9e37*(c.n+1))))
				go func() {
					raceDisable()
					c.task.gid.Store(goid())
					raceEnable()
					cs.park(c.task, "start")
					c.runScript()
					cs.finish(c.task)
				}()
			}
			if err := cs.run(); err != nil {
				errStr = err.Error()
			}
			// let stragglers finish
			if cs.extBlocked == 0 {
				synctest.Wait()
			}
			extSeen = cs.extSeen
			for _, c := range clients {
				c.finishTranscript()
				trs[c.n] = c.log
			}
			if w.sink != nil && only < 0 {
				if bad, what := w.sink.interleaved(); bad {
					errStr = "MAIL " + what
				}
			}
			picks = cs.picks
		})
	}()
	if hp != nil {
		panic(fmt.Sprintf("harness panic in C20 run seed=%d: %v", plan.Seed, hp))
	}
	return trs, picks, errStr
}

func sortInts(a []int) {
	for i := 1; i < len(a); i++ {
		for j := i; j > 0 && a[j] < a[j-1]; j-- {
			a[j], a[j-1] = a[j-1], a[j]
		}
	}
}

// c20Exec: concurrent execution + one solo execution per client, transcripts compared.
func c20Exec(t *testing.T, plan Plan, keepTrace bool) *RunResult {
	res := &RunResult{Plan: plan, Stats: newStats()}
	dg := newDigester(keepTrace)
	fmt.Fprintf(os.Stderr, "SIMRUN seed=%d phase=concurrent\n", plan.Seed)
	conc, picks, errStr := concExecOnce(t, plan, -1, plan.Seed^0xc0c0)
	for _, p := range picks {
		dg.line("pick %s", p)
	}
	if strings.HasPrefix(errStr, "MAIL ") {
		// a recipient gets a mail mixed with somebody else's
		v := viol("C20", "mail_interleaved", "default_mailer", nil, strings.TrimPrefix(errStr, "MAIL "))
		res.Violations = append(res.Violations, v)
		dg.line("VIOLATION %s :: %s", v.Sig(), v.Detail)
	} else if errStr != "" {
		panic("C20 scheduler: " + errStr)
	}
	var ids []int
	for id := range conc {
		ids = append(ids, id)
	}
	sortInts(ids)
	res.Stats.Reach["c20_picks"] += len(picks)
	if lastExtSeen > 0 {
		res.Stats.Reach["c20_points_with_goroutine_blocked_outside_simulation"] += lastExtSeen
	}
	res.Stats.Reach["c20_clients"] += len(ids)
	for _, p := range picks {
		if strings.HasPrefix(p, "lib") {
			res.Stats.Reach["c20_library_goroutine_scheduled"]++
			break
		}
	}
	for _, id := range ids {
		fmt.Fprintf(os.Stderr, "SIMRUN seed=%d phase=solo%d\n", plan.Seed, id)
		solo, _, _ := concExecOnce(t, plan, id, plan.Seed^0x5010^uint64(id))
		a, b := conc[id], solo[id]
		res.Stats.Requests += len(a) / 3
		for _, l := range a {
			dg.line("c%d %s", id, l)
		}
		if strings.Join(a, "\n") != strings.Join(b, "\n") {
			// first differing line
			i := 0
			for i < len(a) && i < len(b) && a[i] == b[i] {
				i++
			}
			la, lb := "<end>", "<end>"
			if i < len(a) {
				la = a[i]
			}
			if i < len(b) {
				lb = b[i]
			}
			what := "response"
			switch {
			case strings.HasPrefix(la, "   sess="):
				what = "client_state"
			case strings.HasPrefix(la, "   row="):
				what = "own_row"
			case strings.HasPrefix(la, "mail "):
				what = "own_mail"
			}
			v := viol("C20", "transcript_differs", what, nil,
				fmt.Sprintf("client %d observed something else than when running alone (line %d):\n      concurrent: %s\n      alone:      %s", id, i, clip(la, 400), clip(lb, 400)))
			res.Violations = append(res.Violations, v)
			dg.line("VIOLATION %s :: %s", v.Sig(), v.Detail)
		} else {
			res.Stats.Reach["c20_transcripts_equal"]++
		}
	}
	fmt.Fprintf(os.Stderr, "SIMRUN seed=%d phase=done\n", plan.Seed)
	res.Nontrivial = len(ids) >= 2
	h := newDigester(false)
	for _, p := range picks {
		h.line("%s", p)
	}
	res.EndState = h.sum() // distinct interleavings
	res.Stats.Steps = len(plan.Steps)
	res.Digest = dg.sum()
	res.Trace = dg.trace
	return res
}

func c20Generate(seed uint64, tier string) Plan {
	r := NewRng(seed)
	n := 2 + r.Intn(steps(tier, 3, 5))
	burst := r.Chance(1, 8)
	if burst {
		// many clients ask for a mail at about the same time
		n = 9 + r.Intn(4)
	}
	cfg := concConfig(r.Fork(1), n)
	plan := Plan{Prop: "C20", Seed: seed, Tier: tier, Mode: "c20", Cfg: cfg}
	if burst {
		plan.Cfg.ensureModules("recover")
		plan.Cfg.MailNoGoroutine = false
		// ... and the mail system is slow: sends are released last
		plan.Extra = json.RawMessage(`{"hold":"mail.send"}`)
		for i := 0; i < n; i++ {
			plan.Steps = append(plan.Steps, Step{Kind: "recover_start", B: i}, Step{Kind: "recover_end", B: i, Str: map[string]string{"have": "0"}})
		}
		return plan
	}
	plan.Steps = concScripts(r.Fork(2), &cfg, n, tier)
	return plan
}

func c20Run(t *testing.T, seed uint64, tier string) *RunResult {
	return c20Exec(t, c20Generate(seed, tier), false)
}

func init() {
	register(&Profile{ID: "C20", Run: c20Run, Replay: c20Exec,
		RequiredReach: []string{"c20_transcripts_equal", "c20_library_goroutine_scheduled", "c20_picks"}})
}
