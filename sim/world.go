package sim

import (
	"bytes"
	"context"
	"crypto/rand"
	"crypto/sha512"
	"encoding/base64"
	"fmt"
	"io"
	"net/http"
	"net/http/httptest"
	"net/url"
	"runtime"
	"sort"
	"strconv"
	"strings"
	"sync"
	"sync/atomic"
	"testing"
	"testing/synctest"
	"time"

	"github.com/volatiletech/authboss/v3"
	_ "github.com/volatiletech/authboss/v3/auth"
	"github.com/volatiletech/authboss/v3/confirm"
	"github.com/volatiletech/authboss/v3/defaults"
	"github.com/volatiletech/authboss/v3/expire"
	"github.com/volatiletech/authboss/v3/lock"
	_ "github.com/volatiletech/authboss/v3/logout"
	aboauth2 "github.com/volatiletech/authboss/v3/oauth2"
	_ "github.com/volatiletech/authboss/v3/otp"
	"github.com/volatiletech/authboss/v3/otp/twofactor"
	"github.com/volatiletech/authboss/v3/otp/twofactor/sms2fa"
	"github.com/volatiletech/authboss/v3/otp/twofactor/totp2fa"
	_ "github.com/volatiletech/authboss/v3/recover"
	_ "github.com/volatiletech/authboss/v3/register"
	"github.com/volatiletech/authboss/v3/remember"
	"golang.org/x/crypto/bcrypt"
	"golang.org/x/oauth2"
)

type faultKind int

const (
	faultNone faultKind = iota
	faultErr
	faultNotFound
	faultFound
)

func (f faultKind) String() string {
	return [...]string{"none", "err", "notfound", "found"}[f]
}

// FaultDirective attaches a fault to a step: the Index-th call (0-based) among
// the calls matching Site ("" = any faultable site) made while serving that
// step's request fails with Kind.
type FaultDirective struct {
	Site  string `json:"site,omitempty"`
	Index int    `json:"index"`
	Kind  string `json:"kind"` // err | notfound | found
}

// reqCtx is the bookkeeping for the request currently being served.
type reqCtx struct {
	browser     int
	fault       *FaultDirective
	faultFired  string // site the directive fired at ("" = not fired)
	calls       []string
	matchN      int
	handlerErrs []string
	panicVal    string
	probe       *ProbeRec
	logsFrom    int
	mailsFrom   int
	smsFrom     int
	sessEvents  []authboss.ClientStateEvent
	cookEvents  []authboss.ClientStateEvent
	writes      []WriteRec
}

// ProbeRec is what a probe handler behind some middleware could see.
type ProbeRec struct {
	Ran     bool              `json:"ran"`
	UserID  string            `json:"user_id"`
	UserErr string            `json:"user_err"`
	Session map[string]string `json:"session"`
}

type MailRec struct {
	Seq     uint64
	To      []string
	Cc, Bcc []string
	Subject string
	Text    string
	HTML    string
	Kind    string // confirm | recover | everify | unknown
	Token   string
	Fate    string // delivered | dropped | send_err
	At      time.Time
}

type SMSRec struct {
	Seq    uint64
	Number string
	Code   string
	Fate   string
	At     time.Time
}

// World is one simulated deployment.
type World struct {
	Cfg Config
	T   *testing.T

	AB      *authboss.Authboss
	DB      *DB
	AB2     *authboss.Authboss // second site (Config.SecondSite)
	DB2     *DB
	Handler http.Handler
	Reader  *defaults.HTTPBodyReader

	Browsers []*Browser
	Mails    []MailRec
	SMSes    []SMSRec
	Logs     []string
	IdP      *IdP

	Accts []*Acct // harness view of accounts (index = account number)
	KB    *KB

	seq   uint64
	cur   *reqCtx
	rand  *seededReader
	sched scheduler
	t0    time.Time

	errN          int64     // storage failures injected so far (selects the error shape)
	sink          *mailSink // where the default LogMailer prints
	mailRng       *Rng      // decides how long a slow mail system keeps a sending goroutine (Config.SlowMail)
	expireOn      bool      // the expire module is set up and its middleware installed (see Config.ExpireLate)
	restarts      int
	appLoadedUser atomic.Int64
	appHookRan    atomic.Int64                               // the application's logout hook ran (atomic: tasks of a concurrent run call it)
	lastTOTP      map[int]string                             // account -> digits last submitted as a genuine TOTP code
	mwCache       map[string]func(http.Handler) http.Handler // guarded probe routes, mounted once per server process
	lockMod       *lock.Lock
	confirmMod    *confirm.Confirm

	Stats *Stats
	mu    sync.Mutex // protects Logs/Mails/SMSes in concurrent mode

	origRand io.Reader

	lastSec, lastSec2 string
}

func (w *World) nextSeq() uint64 { return atomic.AddUint64(&w.seq, 1) }

// seam is called at every interface through which the library leaves its own
// code. It is a scheduling point and a fault site.
func (w *World) seam(site, arg string) faultKind {
	w.sched.yield(w, site)
	cur := w.cur
	if cur == nil {
		return faultNone
	}
	cur.calls = append(cur.calls, site)
	fd := cur.fault
	if fd == nil || cur.faultFired != "" {
		return faultNone
	}
	if !faultable(site) {
		return faultNone
	}
	if fd.Site != "" && fd.Site != site {
		return faultNone
	}
	idx := cur.matchN
	cur.matchN++
	if idx != fd.Index {
		return faultNone
	}
	k := faultErr
	switch fd.Kind {
	case "notfound":
		k = faultNotFound
	case "found":
		k = faultFound
	}
	if !kindMeaningful(site, k) {
		k = faultErr
	}
	cur.faultFired = site
	w.Stats.Faults[site+":"+k.String()]++
	return k
}

func faultable(site string) bool {
	return strings.HasPrefix(site, "db.") && site != "db.New" ||
		strings.HasPrefix(site, "hash.") || strings.HasPrefix(site, "render.") ||
		site == "sms.send" || site == "mail.send" || strings.HasPrefix(site, "idp.")
}

func kindMeaningful(site string, k faultKind) bool {
	switch k {
	case faultNotFound:
		return site == "db.Load" || site == "db.Save" || site == "db.LoadByConfirmSelector" ||
			site == "db.LoadByRecoverSelector" || site == "db.UseRememberToken"
	case faultFound:
		return site == "db.Create"
	}
	return true
}

// --- scheduler -----------------------------------------------------------------

type scheduler interface {
	yield(w *World, site string)
	// afterRequest lets goroutines the library spawned run to completion.
	afterRequest(w *World)
}

func goid() uint64 {
	var buf [64]byte
	n := runtime.Stack(buf[:], false)
	// "goroutine 123 ["
	s := buf[10:n]
	i := bytes.IndexByte(s, ' ')
	id, _ := strconv.ParseUint(string(s[:i]), 10, 64)
	return id
}

// seqSched runs one request at a time on the driver goroutine. Goroutines the
// library spawns (mail senders) park at their first seam until the request
// handler has returned, then run to completion one at a time, so that the log
// and mail order is a function of the seed alone.
type seqSched struct {
	driver  uint64
	mu      sync.Mutex
	kids    map[uint64]*kid
	pending []*kid
	n       int
	drain   bool // end of the run: nobody is kept waiting any longer
}

type kid struct {
	n    int
	site string
	gate chan struct{}
	open bool
	held int // requests this goroutine has been kept waiting over (Config.SlowMail)
}

func (s *seqSched) yield(w *World, site string) {
	g := goid()
	if g == s.driver {
		return
	}
	s.mu.Lock()
	k, ok := s.kids[g]
	if !ok {
		s.n++
		k = &kid{n: s.n, site: site, gate: make(chan struct{})}
		s.kids[g] = k
		s.pending = append(s.pending, k)
	}
	s.mu.Unlock()
	if !k.open {
		<-k.gate
	}
}

func (s *seqSched) afterRequest(w *World) {
	var hold []*kid
	for {
		synctest.Wait()
		s.mu.Lock()
		if len(s.pending) == 0 {
			s.pending = hold
			s.mu.Unlock()
			return
		}
		sort.SliceStable(s.pending, func(i, j int) bool { return s.pending[i].n < s.pending[j].n })
		k := s.pending[0]
		s.pending = s.pending[1:]
		if w.Cfg.SlowMail && !s.drain && k.held < 3 && w.mailRng.Chance(1, 2) {
			// a slow mail system: the sending goroutine is still on its way
			// while later requests are served (and may overtake it)
			k.held++
			hold = append(hold, k)
			s.mu.Unlock()
			w.Stats.Reach["mail_goroutine_held_over_request"]++
			continue
		}
		k.open = true
		s.mu.Unlock()
		w.Stats.Reach["mail_goroutine_released"]++
		close(k.gate)
	}
}

// --- construction ----------------------------------------------------------------

type simLogger struct{ w *World }

func (l simLogger) Write(p []byte) (int, error) {
	l.w.seam("log.write", "")
	if cs, ok := l.w.sched.(*concSched); ok {
		// concurrent mode: task-local log buffers (a shared, locked buffer
		// would order every log line of every task for the race detector)
		if t := cs.lookup(goid()); t != nil {
			t.logs = append(t.logs, string(p))
			return len(p), nil
		}
	}
	l.w.mu.Lock()
	l.w.Logs = append(l.w.Logs, string(p))
	l.w.mu.Unlock()
	return len(p), nil
}

type simHasher struct {
	w     *World
	inner authboss.Hasher
}

func (h simHasher) CompareHashAndPassword(hash, password string) error {
	if h.w.seam("hash.cmp", "") == faultErr {
		// A failing comparison can only be reported as "does not match".
		return errInjected
	}
	return h.inner.CompareHashAndPassword(hash, password)
}

func (h simHasher) GenerateHash(password string) (string, error) {
	if h.w.seam("hash.gen", "") == faultErr {
		return "", errInjected
	}
	return h.inner.GenerateHash(password)
}

type simRenderer struct {
	w     *World
	inner authboss.Renderer
	mail  bool
}

func (r simRenderer) Load(names ...string) error { return r.inner.Load(names...) }

func (r simRenderer) Render(ctx context.Context, page string, data authboss.HTMLData) ([]byte, string, error) {
	site := "render.view"
	if r.mail {
		site = "render.mail"
	}
	if r.w.seam(site, page) == faultErr {
		return nil, "", errInjected
	}
	return r.inner.Render(ctx, page, data)
}

type simMailer struct {
	w     *World
	inner authboss.Mailer
}

// mailSink is the writer the default LogMailer prints into. Every Write is a
// seam (the sending goroutine may be overtaken there); the sink remembers which
// send each chunk belongs to, so that a mail whose chunks are interleaved with
// another mail's can be told from one that arrived in one piece.
type mailSink struct {
	w      *World
	mu     sync.Mutex
	chunks []uint64          // send id of every chunk, in arrival order
	cur    map[uint64]uint64 // goroutine -> id of the send it is inside
	nSend  uint64
}

func (m *mailSink) begin() {
	m.mu.Lock()
	m.nSend++
	if m.cur == nil {
		m.cur = map[uint64]uint64{}
	}
	m.cur[goid()] = m.nSend
	m.mu.Unlock()
}

func (m *mailSink) Write(p []byte) (int, error) {
	m.w.seam("mailsink.write", "")
	m.mu.Lock()
	m.chunks = append(m.chunks, m.cur[goid()])
	m.mu.Unlock()
	return len(p), nil
}

// interleaved reports a send whose chunks do not form one contiguous run.
func (m *mailSink) interleaved() (bool, string) {
	m.mu.Lock()
	defer m.mu.Unlock()
	first, last, count := map[uint64]int{}, map[uint64]int{}, map[uint64]int{}
	for i, id := range m.chunks {
		if _, ok := first[id]; !ok {
			first[id] = i
		}
		last[id] = i
		count[id]++
	}
	for id := uint64(1); id <= m.nSend; id++ {
		if count[id] > 0 && last[id]-first[id]+1 != count[id] {
			return true, fmt.Sprintf("mail #%d reached the mailer's writer in %d pieces with %d pieces of other mails in between", id, count[id], last[id]-first[id]+1-count[id])
		}
	}
	return false, ""
}

func (m simMailer) Send(ctx context.Context, e authboss.Email) error {
	if m.w.sink != nil {
		m.w.sink.begin()
	}
	f := m.w.seam("mail.send", strings.Join(e.To, ","))
	rec := MailRec{Seq: m.w.nextSeq(), To: e.To, Cc: e.Cc, Bcc: e.Bcc, Subject: e.Subject, Text: e.TextBody, HTML: e.HTMLBody, At: time.Now(), Fate: "delivered"}
	rec.Kind, rec.Token = classifyMail(e.TextBody + " " + e.HTMLBody)
	var err error
	if f == faultErr {
		rec.Fate = "send_err"
		err = errInjected
	} else if m.inner != nil {
		// real default mailer code (LogMailer / SMTPMailer up to the dial)
		if ierr := m.inner.Send(ctx, e); ierr != nil && !m.w.Cfg.SMTPMailer {
			err = ierr
		}
	}
	m.w.mu.Lock()
	m.w.Mails = append(m.w.Mails, rec)
	m.w.mu.Unlock()
	return err
}

func classifyMail(body string) (kind, token string) {
	find := func(marker string) string {
		i := strings.Index(body, marker)
		if i < 0 {
			return ""
		}
		s := body[i+len(marker):]
		j := strings.IndexAny(s, "\"&' \\<")
		if j >= 0 {
			s = s[:j]
		}
		// the value is query-escaped by url.Values.Encode
		return strings.NewReplacer("%3D", "=", "%2B", "+", "%2F", "/").Replace(s)
	}
	switch {
	case strings.Contains(body, "confirm?cnf="):
		return "confirm", find("confirm?cnf=")
	case strings.Contains(body, "recover/end?token="):
		return "recover", find("recover/end?token=")
	case strings.Contains(body, "/email/verify/end?token="):
		return "everify", find("/email/verify/end?token=")
	}
	return "unknown", ""
}

type simSMS struct{ w *World }

func (s simSMS) Send(ctx context.Context, number, text string) error {
	f := s.w.seam("sms.send", number)
	rec := SMSRec{Seq: s.w.nextSeq(), Number: number, Code: text, At: time.Now(), Fate: "delivered"}
	var err error
	if f == faultErr {
		rec.Fate = "send_err"
		err = errInjected
	}
	s.w.mu.Lock()
	s.w.SMSes = append(s.w.SMSes, rec)
	s.w.mu.Unlock()
	return err
}

// errHandler observes handler errors; it delegates to the real default error
// handler (silent: only logs) or writes a 500.
type simErrHandler struct {
	w   *World
	def defaults.ErrorHandler
}

func (e simErrHandler) Wrap(h func(w http.ResponseWriter, r *http.Request) error) http.Handler {
	rec := func(w http.ResponseWriter, r *http.Request) error {
		err := h(w, r)
		if err != nil && e.w.cur != nil {
			e.w.cur.handlerErrs = append(e.w.cur.handlerErrs, err.Error())
		}
		return err
	}
	if !e.w.Cfg.Err500 {
		return e.def.Wrap(rec)
	}
	return http.HandlerFunc(func(w http.ResponseWriter, r *http.Request) {
		if err := rec(w, r); err != nil {
			e.w.AB.Logger(r.Context()).Errorf("request error at %s: %v", r.URL.Path, err)
			w.WriteHeader(http.StatusInternalServerError)
			io.WriteString(w, `{"status":"failure","error":"internal"}`)
		}
	})
}

type simBodyReader struct{ inner authboss.BodyReader }

func (b simBodyReader) Read(page string, r *http.Request) (authboss.Validator, error) {
	if page == "otplogin" {
		page = "login"
	}
	return b.inner.Read(page, r)
}

// Acct is the harness's own record of an account it provisioned or registered.
type Acct struct {
	N          int
	PID        string
	Email      string
	Phone      string // phone this account's owner reads
	TOTPSecret string // secret as provisioned (the KB tracks later changes)
	Secondary  []string
	OAuth      bool
}

func acctPID(cfg *Config, n int) (pid, email string) {
	if cfg.CaseTwinPIDs && n%2 == 1 {
		// the odd accounts are the case twins of their even neighbours: to a
		// case-sensitive user store "U0@x.co" and "u0@x.co" are two people
		c2 := *cfg
		c2.CaseTwinPIDs = false
		p0, e0 := acctPID(&c2, n-1)
		return strings.ToUpper(p0[:1]) + p0[1:], strings.ToUpper(e0[:1]) + e0[1:]
	}
	email = fmt.Sprintf("u%d@x.co", n)
	if cfg.OddPIDs {
		email = []string{"u;%d@x.co", "semi;;colon%d@x.co", ";%d@x.co", "u%d;@x.co"}[n%4]
		email = fmt.Sprintf(email, n)
	}
	if cfg.UseUsername {
		if cfg.OddPIDs {
			return fmt.Sprintf("us;er%d", n), email
		}
		return fmt.Sprintf("user%d", n), email
	}
	return email, email
}

func acctPhone(n int) string { return fmt.Sprintf("+1555000%d", n) }

// NewWorld builds the deployment. Must be called inside a synctest bubble.
func NewWorld(t *testing.T, cfg Config, seed uint64, concurrent bool) *World {
	w := &World{Cfg: cfg, T: t, Stats: newStats(), t0: time.Now()}
	if concurrent {
		w.sched = newConcSched()
	} else {
		w.sched = &seqSched{driver: goid(), kids: map[uint64]*kid{}}
	}
	w.rand = &seededReader{rng: NewRng(seed ^ 0xa5a5a5a5deadbeef)}
	w.rand.zeroTail = cfg.ZeroTailRand
	w.rand.onRead = func() { w.seam("rand.read", "") }
	w.mailRng = NewRng(seed ^ 0x51074a11)
	w.origRand = rand.Reader
	rand.Reader = w.rand
	w.DB = newDB(w)
	w.KB = newKB(w)
	w.IdP = newIdP(w)
	// which failure shape an injected error takes first differs from run to run
	w.IdP.n = int(seed % 3)
	w.errN = int64((seed / 3) % 4)

	w.restart()
	if cfg.SecondSite {
		w.Stats.Reach["cfg_second_site"]++
	}

	for i := 0; i < cfg.NBrowsers; i++ {
		w.Browsers = append(w.Browsers, newBrowser(i))
	}
	w.provision()
	return w
}

// restart (re)builds the server side: fresh authboss instances over the
// surviving user stores.
// rememberActive: the remember middleware is installed (with the expire
// middleware only in the C09 configurations that combine the two).
func (w *World) rememberActive() bool {
	return w.Cfg.hasModule("remember") && (!w.Cfg.hasSetup("expire") || w.Cfg.ExpireWithRemember)
}

// mountProbes builds the guards of every probe route, as an application does
// when it starts (the map is read-only while requests are served).
func (w *World) mountProbes() {
	ab := w.AB
	m := map[string]func(http.Handler) http.Handler{}
	for reqs := 0; reqs < 4; reqs++ {
		for mp := 0; mp < 2; mp++ {
			for mode := 0; mode < 3; mode++ {
				guard := authboss.MountedMiddleware2(ab, mp == 1, authboss.MWRequirements(reqs), authboss.MWRespondOnFailure(mode))
				m[fmt.Sprintf("mw/%d/%d/%d", reqs, mode, mp)] = guard
				// the same guard behind an application middleware that has
				// already loaded the current user into the request context
				m[fmt.Sprintf("chain/%d/%d/%d", reqs, mode, mp)] = func(h http.Handler) http.Handler {
					inner := guard(h)
					return http.HandlerFunc(func(rw http.ResponseWriter, r *http.Request) {
						ab.LoadCurrentUser(&r)
						inner.ServeHTTP(rw, r)
					})
				}
			}
			for redirect := 0; redirect < 2; redirect++ {
				full, twofa := reqs&1 != 0, reqs&2 != 0
				if mp == 1 {
					m[fmt.Sprintf("legacy/%d/%d/%d", reqs, redirect, mp)] = authboss.MountedMiddleware(ab, true, redirect == 1, full, twofa)
				} else {
					m[fmt.Sprintf("legacy/%d/%d/%d", reqs, redirect, mp)] = authboss.Middleware(ab, redirect == 1, full, twofa)
				}
			}
		}
	}
	none := authboss.Middleware2(ab, authboss.RequireNone, authboss.RespondNotFound)
	lockMW, confirmMW := lock.Middleware(ab), confirm.Middleware(ab)
	m["lock"] = func(h http.Handler) http.Handler { return none(lockMW(h)) }
	m["confirm"] = func(h http.Handler) http.Handler { return none(confirmMW(h)) }
	w.mwCache = m
}

func (w *World) restart() {
	w.expireOn = w.Cfg.hasSetup("expire") && (!w.Cfg.ExpireLate || w.restarts > 0)
	w.restarts++
	w.AB = w.newSite(false)
	if w.Cfg.SecondSite {
		w.AB2 = w.newSite(true)
	}
	w.lockMod = &lock.Lock{Authboss: w.AB}
	w.confirmMod = &confirm.Confirm{Authboss: w.AB}
	w.mountProbes()
	w.Handler = w.buildHandler()
}

// adminInstance is the authboss instance of an operator tool (a CLI, a worker):
// same user store and hasher, no modules loaded, never serves a request.
func (w *World) adminInstance() *authboss.Authboss {
	ab := authboss.New()
	ab.Config.Storage.Server = w.DB
	ab.Config.Modules.BCryptCost = bcrypt.MinCost
	ab.Config.Core.Hasher = w.AB.Config.Core.Hasher
	ab.Config.Core.Logger = w.AB.Config.Core.Logger
	return ab
}

// newSite builds and initialises one authboss instance. The first is the
// deployment under test, wired to the simulator's seams. The second (see
// Config.SecondSite) is an unrelated site hosted by the same process: plain
// components, its own user store, never sent a request.
func (w *World) newSite(second bool) *authboss.Authboss {
	cfg := w.Cfg
	ab := authboss.New()
	jr := defaults.JSONRenderer{}
	// the renderers first: SetCore hands the view renderer to the responder
	if second {
		ab.Config.Core.ViewRenderer = jr
		ab.Config.Core.MailRenderer = jr
	} else {
		ab.Config.Core.ViewRenderer = simRenderer{w: w, inner: jr}
		ab.Config.Core.MailRenderer = simRenderer{w: w, inner: jr, mail: true}
	}
	defaults.SetCore(&ab.Config, cfg.JSON, cfg.UseUsername)
	reader := ab.Config.Core.BodyReader.(*defaults.HTTPBodyReader)
	if second {
		logger := defaults.NewLogger(io.Discard)
		ab.Config.Core.Logger = logger
		ab.Config.Core.ErrorHandler = defaults.NewErrorHandler(logger)
		ab.Config.Core.Mailer = defaults.NewLogMailer(io.Discard)
		ab.Config.Core.Hasher = authboss.NewBCryptHasher(bcrypt.MinCost)
		if w.DB2 == nil {
			w.DB2 = newDB(w)
			w.DB2.second = true
		}
		ab.Config.Storage.Server = w.DB2
	} else {
		logger := defaults.NewLogger(simLogger{w})
		ab.Config.Core.Logger = logger
		ab.Config.Core.ErrorHandler = simErrHandler{w: w, def: defaults.NewErrorHandler(logger)}
		if w.sink == nil {
			w.sink = &mailSink{w: w}
		}
		var innerMailer authboss.Mailer = defaults.NewLogMailer(w.sink)
		if cfg.SMTPMailer {
			innerMailer = defaults.NewSMTPMailer("bad:::addr", nil)
		}
		ab.Config.Core.Mailer = simMailer{w: w, inner: innerMailer}
		w.Reader = reader
		ab.Config.Core.BodyReader = simBodyReader{inner: reader}
		ab.Config.Core.Hasher = simHasher{w: w, inner: authboss.NewBCryptHasher(bcrypt.MinCost)}
		ab.Config.Storage.Server = w.DB
	}
	pwRule := defaults.Rules{FieldName: "password", MinLength: cfg.PwMinLen, MinUpper: cfg.PwMinUpper,
		MinLower: cfg.PwMinLower, MinNumeric: cfg.PwMinNum, MinSymbols: cfg.PwMinSym, AllowWhitespace: cfg.PwAllowSpace}
	reader.Rulesets["register"] = []defaults.Rules{reader.Rulesets["register"][0], pwRule}
	reader.Rulesets["recover_end"] = []defaults.Rules{pwRule}
	reader.Whitelist["register"] = []string{"email", "password", "name"}

	ab.Config.Modules.BCryptCost = bcrypt.MinCost
	ab.Config.Storage.SessionState = &stateRW{w: w, kind: "session"}
	ab.Config.Storage.CookieState = &stateRW{w: w, kind: "cookie"}
	if second {
		// the other site is a back office: its registration form carries a
		// role, and it has its own (memoryless) visitors
		reader.Whitelist["register"] = []string{"email", "password", "name", "is_admin", "role"}
		ab.Config.Storage.SessionState = nullState{}
		ab.Config.Storage.CookieState = nullState{}
	}
	ab.Config.Storage.SessionStateWhitelistKeys = append([]string(nil), cfg.Whitelist...)
	ab.Config.Paths.Mount = cfg.Mount
	ab.Config.Paths.RootURL = "https://site.example"
	ab.Config.Paths.AuthLoginOK = "/ok/login"
	ab.Config.Paths.ConfirmOK = "/ok/confirm"
	ab.Config.Paths.ConfirmNotOK = "/nok/confirm"
	ab.Config.Paths.LockNotOK = "/nok/lock"
	ab.Config.Paths.LogoutOK = "/ok/logout"
	ab.Config.Paths.OAuth2LoginOK = "/ok/oauth2"
	ab.Config.Paths.OAuth2LoginNotOK = "/nok/oauth2"
	ab.Config.Paths.RecoverOK = "/ok/recover"
	ab.Config.Paths.RegisterOK = "/ok/register"
	ab.Config.Paths.TwoFactorEmailAuthNotOK = "/nok/everify"
	ab.Config.Paths.NotAuthorized = "/nok/auth"
	ab.Config.Mail.From = "noreply@site.example"
	ab.Config.Modules.MailNoGoroutine = cfg.MailNoGoroutine
	ab.Config.Modules.RecoverLoginAfterRecovery = cfg.RecoverLogin
	ab.Config.Modules.TwoFactorEmailAuthRequired = cfg.EmailAuth2FA
	ab.Config.Modules.LockAfter = cfg.LockAfter
	ab.Config.Modules.LockWindow = cfg.LockWindow
	ab.Config.Modules.LockDuration = cfg.LockDuration
	ab.Config.Modules.ExpireAfter = cfg.ExpireAfter
	ab.Config.Modules.RecoverTokenDuration = cfg.RecoverDur
	ab.Config.Modules.LogoutMethod = cfg.LogoutMethod
	ab.Config.Modules.MailRouteMethod = cfg.MailRouteMethod
	ab.Config.Modules.ResponseOnUnauthed = authboss.MWRespondOnFailure(cfg.ResponseOnUnauthed)
	ab.Config.Modules.TOTP2FAIssuer = "SimIssuer"
	ab.Config.Modules.OAuth2Providers = map[string]authboss.OAuth2Provider{}
	for _, p := range cfg.Providers {
		ab.Config.Modules.OAuth2Providers[p] = authboss.OAuth2Provider{
			OAuth2Config: &oauth2.Config{
				ClientID: "cid-" + p, ClientSecret: "csecret-" + p, Scopes: []string{"profile"},
				Endpoint: oauth2.Endpoint{AuthURL: "https://idp.example/" + p + "/auth", TokenURL: "https://idp.example/" + p + "/token", AuthStyle: oauth2.AuthStyleInParams},
			},
			FindUserDetails: aboauth2.GoogleUserDetails,
		}
		if cfg.OAuth2ExtraParams {
			pr := ab.Config.Modules.OAuth2Providers[p]
			pr.AdditionalParams = url.Values{"access_type": {"offline"}, "prompt": {"consent"}}
			ab.Config.Modules.OAuth2Providers[p] = pr
		}
	}

	if cfg.AppLogoutHook && !second {
		ab.Events.After(authboss.EventLogout, func(rw http.ResponseWriter, r *http.Request, handled bool) (bool, error) {
			w.appHookRan.Add(1)
			http.Redirect(rw, r, "/sso/end-session", http.StatusFound)
			return true, nil
		})
	}
	registerAppHooks := func() {
		if cfg.AppAuthHook && !second {
			// the application answers every completed login itself (a forced
			// password change page, say): After(EventAuth), handled=true
			ab.Events.After(authboss.EventAuth, func(rw http.ResponseWriter, r *http.Request, handled bool) (bool, error) {
				if handled {
					return false, nil
				}
				w.appHookRan.Add(1)
				http.Redirect(rw, r, "/app/after-login", http.StatusFound)
				return true, nil
			})
		}
	}
	initModules := func() {
		if err := ab.Init(cfg.Modules...); err != nil {
			panic("sim: authboss init: " + err.Error())
		}
	}
	// the 2FA / expire set-ups may be wired before or after Init
	if !cfg.SetupBeforeInit {
		initModules()
	}
	defer func() {
		if cfg.SetupBeforeInit {
			initModules()
		}
		// the application's own event handlers come last: the modules'
		// handlers must have run before one of them answers the request
		registerAppHooks()
	}()
	for _, s := range cfg.Setups {
		var err error
		switch s {
		case "totp":
			err = (&totp2fa.TOTP{Authboss: ab}).Setup()
		case "sms":
			var sender sms2fa.SMSSender = simSMS{w}
			if second {
				sender = nullSMS{}
			}
			err = (&sms2fa.SMS{Authboss: ab, Sender: sender}).Setup()
		case "recovery":
			err = (&twofactor.Recovery{Authboss: ab}).Setup()
		case "expire":
			if !second && !w.expireOn {
				continue
			}
			err = expire.Setup(ab)
		}
		if err != nil {
			panic("sim: setup " + s + ": " + err.Error())
		}
	}
	return ab
}

// nullState is the client-state store of the second site's visitors.
type nullState struct{}

type emptyState struct{}

func (emptyState) Get(string) (string, bool) { return "", false }

func (nullState) ReadState(*http.Request) (authboss.ClientState, error) { return emptyState{}, nil }
func (nullState) WriteState(http.ResponseWriter, authboss.ClientState, []authboss.ClientStateEvent) error {
	return nil
}

// secondSiteRequest lets a visitor of the second site use it (the two sites
// share nothing but the process).
func (w *World) secondSiteRequest(kind string, n int) {
	if w.AB2 == nil {
		return
	}
	ab := w.AB2
	pidf := w.pidField()
	fields := map[string]string{pidf: fmt.Sprintf("visitor%d@two.example", n), "password": goodPw}
	path := "/login"
	if w.Cfg.UseUsername {
		fields[pidf] = fmt.Sprintf("visitor%d", n)
	}
	if kind == "register" {
		path = "/register"
		fields["confirm_password"], fields["is_admin"], fields["role"], fields["name"] = goodPw, "true", "auditor", "Visitor"
		fields["email"] = fmt.Sprintf("visitor%d@two.example", n)
	}
	body, ctype := w.encodeBody(fields)
	req := httptest.NewRequest("POST", path, strings.NewReader(body))
	req.Header.Set("Content-Type", ctype)
	func() {
		defer func() { recover() }()
		ab.LoadClientStateMiddleware(ab.Config.Core.Router).ServeHTTP(httptest.NewRecorder(), req)
	}()
	w.Stats.Reach["second_site_request_"+kind]++
}

type nullSMS struct{}

func (nullSMS) Send(ctx context.Context, number, text string) error { return nil }

// Close restores process-wide state.
func (w *World) Close() { rand.Reader = w.origRand }

func (w *World) buildHandler() http.Handler {
	ab := w.AB
	mux := http.HandlerFunc(func(rw http.ResponseWriter, r *http.Request) {
		p := r.URL.Path
		switch {
		case strings.HasPrefix(p, "/probe/"), p == "/nok/lock" && w.Cfg.hasModule("lock"), p == "/nok/confirm" && w.Cfg.hasModule("confirm"):
			w.serveProbe(rw, r)
		case w.Cfg.Mount == "" || p == w.Cfg.Mount || strings.HasPrefix(p, w.Cfg.Mount+"/"):
			if w.Cfg.AppLoadsUser {
				// the application's data injector in front of the authboss
				// routes; errors are the routes' business (nobody logged
				// in, user deleted, store down)
				if _, err := ab.LoadCurrentUser(&r); err == nil {
					w.appLoadedUser.Add(1)
				}
			}
			if w.Cfg.Mount == "" {
				ab.Config.Core.Router.ServeHTTP(rw, r)
			} else {
				http.StripPrefix(w.Cfg.Mount, ab.Config.Core.Router).ServeHTTP(rw, r)
			}
		default:
			http.NotFound(rw, r)
		}
	})
	var h http.Handler = mux
	h = authboss.ModuleListMiddleware(ab)(h)
	if w.expireOn {
		h = expire.Middleware(ab)(h)
		if w.Cfg.ExpireWithRemember && w.Cfg.hasModule("remember") {
			// remember outside expire: an expired session is wiped first,
			// the cookie logs the browser in again on its next request
			h = remember.Middleware(ab)(h)
		}
	} else if w.Cfg.hasModule("remember") {
		h = remember.Middleware(ab)(h)
	}
	h = ab.LoadClientStateMiddleware(h)
	inner := h
	// the application puts the IdP transport into the context, as
	// golang.org/x/oauth2 documents (oauth2.HTTPClient)
	return http.HandlerFunc(func(rw http.ResponseWriter, r *http.Request) {
		ctx := context.WithValue(r.Context(), oauth2.HTTPClient, &http.Client{Transport: w.IdP})
		inner.ServeHTTP(rw, r.WithContext(ctx))
	})
}

// sessionKeysOfInterest are all keys any module writes plus application keys.
var sessionKeysOfInterest = []string{
	authboss.SessionKey, authboss.SessionHalfAuthKey, authboss.SessionLastAction, authboss.Session2FA,
	authboss.Session2FAAuthToken, authboss.Session2FAAuthed, authboss.SessionOAuth2State, authboss.SessionOAuth2Params,
	totp2fa.SessionTOTPSecret, totp2fa.SessionTOTPPendingPID,
	sms2fa.SessionSMSNumber, sms2fa.SessionSMSSecret, sms2fa.SessionSMSLast, sms2fa.SessionSMSPendingPID,
	authboss.FlashSuccessKey, authboss.FlashErrorKey, "app_theme", "app_cart", "app_other", "app_theme2", "guid",
}

// Probe routes:
//
//	/probe/open                      — no middleware; reports what a handler sees
//	/probe/mw/<reqs>/<mode>/<mp>/... — authboss.MountedMiddleware2
//	/probe/legacy/<reqs>/<redirect>/<mp>/... — authboss.Middleware / MountedMiddleware (boolean flags)
//	/probe/lock  /probe/confirm      — Middleware2(RequireNone, 404) → lock/confirm middleware
func (w *World) serveProbe(rw http.ResponseWriter, r *http.Request) {
	ab := w.AB
	final := http.HandlerFunc(func(rw http.ResponseWriter, r *http.Request) {
		rec := &ProbeRec{Ran: true, Session: map[string]string{}}
		rec.UserID, _ = ab.CurrentUserID(r)
		if u, err := ab.CurrentUser(r); err != nil {
			rec.UserErr = err.Error()
		} else if u != nil {
			rec.UserErr = ""
		}
		for _, k := range sessionKeysOfInterest {
			if v, ok := authboss.GetSession(r, k); ok {
				rec.Session[k] = v
			}
		}
		if w.cur != nil {
			w.cur.probe = rec
		}
		rw.WriteHeader(200)
		io.WriteString(rw, "probe-ok")
	})
	parts := strings.Split(strings.TrimPrefix(r.URL.Path, "/probe/"), "/")
	switch r.URL.Path {
	case "/nok/lock":
		parts = []string{"lock"}
	case "/nok/confirm":
		parts = []string{"confirm"}
	}
	// the application mounts each guarded route once, when it starts: the
	// middleware values live as long as the server process (see mountProbes)
	mounted := func(key string) http.Handler {
		if mw, ok := w.mwCache[key]; ok {
			return mw(final)
		}
		return http.NotFoundHandler()
	}
	switch parts[0] {
	case "open":
		final.ServeHTTP(rw, r)
	case "mw", "legacy", "chain":
		if len(parts) < 4 {
			http.NotFound(rw, r)
			return
		}
		mounted(strings.Join(parts[:4], "/")).ServeHTTP(rw, r)
	case "lock":
		mounted("lock").ServeHTTP(rw, r)
	case "confirm":
		mounted("confirm").ServeHTTP(rw, r)
	default:
		http.NotFound(rw, r)
	}
}

// provision creates the pre-provisioned accounts directly in the database.
func (w *World) provision() {
	pr := NewRng(0x1234567 ^ uint64(len(w.Cfg.Accounts)))
	for i, spec := range w.Cfg.Accounts {
		pid, email := acctPID(&w.Cfg, i)
		a := &Acct{N: i, PID: pid, Email: email, Phone: acctPhone(i)}
		pw := spec.Password
		if pw == "" {
			pw = fmt.Sprintf("Passw0rd!-%d-init", i)
		}
		h, err := bcrypt.GenerateFromPassword([]byte(pw), bcrypt.MinCost)
		if err != nil {
			panic(err)
		}
		row := &Row{PID: pid, Email: email, Password: string(h), Confirmed: spec.Confirmed}
		for j := 0; j < spec.Secondary; j++ {
			s := fmt.Sprintf("u%d-alt%d@y.org", i, j)
			row.Secondary = append(row.Secondary, s)
			a.Secondary = append(a.Secondary, s)
		}
		w.KB.setPassword(i, pw)
		if spec.TOTP {
			sec := base32Secret(pr)
			row.TOTPSecretKey = sec
			a.TOTPSecret = sec
			w.KB.TOTPSecret[i] = sec
		}
		if spec.SMS {
			row.SMSPhone = a.Phone
			w.KB.SMSNumber[i] = a.Phone
		}
		if spec.TOTP || spec.SMS {
			var hashes []string
			for j := 0; j < 3; j++ {
				code := fmt.Sprintf("rc%03d-%05d", i, j*7+pr.Intn(5))
				hh, _ := bcrypt.GenerateFromPassword([]byte(code), bcrypt.MinCost)
				hashes = append(hashes, string(hh))
				w.KB.addSecret(&Secret{Kind: "recovery", Acct: i, Value: code})
			}
			row.RecoveryCodes = strings.Join(hashes, ",")
		}
		var otps []string
		for j := 0; j < spec.OTPs; j++ {
			otp := fmt.Sprintf("%08x-%08x-%08x-%08x", pr.U64()&0xffffffff, pr.U64()&0xffffffff, pr.U64()&0xffffffff, pr.U64()&0xffffffff)
			sum := sha512.Sum512([]byte(otp))
			otps = append(otps, base64.StdEncoding.EncodeToString(sum[:]))
			w.KB.addSecret(&Secret{Kind: "otp", Acct: i, Value: otp})
		}
		row.OTPs = strings.Join(otps, ",")
		w.DB.put(row)
		w.Accts = append(w.Accts, a)
	}
	if w.DB2 != nil {
		// the second site knows the same identifiers; there each has the
		// password the next account has on the first site, and nothing gates
		// or protects it
		n := len(w.Accts)
		for i, a := range w.Accts {
			h, err := bcrypt.GenerateFromPassword([]byte(w.KB.Password[(i+1)%n]), bcrypt.MinCost)
			if err != nil {
				panic(err)
			}
			w.DB2.put(&Row{PID: a.PID, Email: a.Email, Password: string(h), Confirmed: true})
		}
	}
}

const b32 = "ABCDEFGHIJKLMNOPQRSTUVWXYZ234567"

func base32Secret(r *Rng) string {
	b := make([]byte, 32)
	for i := range b {
		b[i] = b32[r.Intn(32)]
	}
	return string(b)
}

// concurrent scheduler placeholder (C20) — defined in sched_conc.go
