package sim

import (
	"fmt"
	"strings"
	"time"
)

// genProfile tunes the common generator for a property.
type genProfile struct {
	MaxSteps   int
	Weights    map[string]int // step kind -> weight (absent = default weight)
	Default    int            // default weight for kinds not listed
	FollowUp   int            // percent: continue a flow the browser is in the middle of
	Template   int            // percent: start a template
	Templates  []string
	BadSecret  int // percent of secrets that are deliberately not the valid own one
	FaultRate  int // per-mille of requests carrying a fault directive
	ThreshGaps int // percent of steps preceded by a threshold-neighbourhood gap
	SmallGaps  int // percent preceded by a small gap
	Redir      int // percent of login-type requests carrying a redir parameter
	// WrongJSONTypes: JSON clients sometimes send the remember flag as a
	// boolean (the body then fails to parse: only for properties without a
	// "must be accepted" clause)
	WrongJSONTypes bool
	RedirGen       func(r *Rng) string
	Thresholds     func(c *Config) []time.Duration
}

type commonGen struct {
	r     *Rng
	p     *genProfile
	queue []Step
	home  []int // browser -> preferred account
}

func newCommonGen(r *Rng, p *genProfile, w *World) *commonGen {
	g := &commonGen{r: r, p: p}
	for b := range w.Browsers {
		g.home = append(g.home, b%max(1, len(w.Accts)))
	}
	return g
}

func (g *commonGen) weight(kind string) int {
	if v, ok := g.p.Weights[kind]; ok {
		return v
	}
	return g.p.Default
}

// enabledKinds lists the step kinds the configuration supports.
func enabledKinds(c *Config) []string {
	ks := []string{"advance", "probe", "drop_session", "restart"}
	if c.SecondSite {
		ks = append(ks, "second_site")
	}
	has := c.hasModule
	if has("auth") {
		ks = append(ks, "login", "login_get")
	}
	if has("otp") {
		ks = append(ks, "otp_login", "otp_add", "otp_clear")
	}
	if has("logout") {
		ks = append(ks, "logout")
	}
	if has("register") {
		ks = append(ks, "register")
	}
	if has("recover") {
		ks = append(ks, "recover_start", "recover_end", "recover_end_get")
	}
	if has("confirm") {
		ks = append(ks, "confirm", "op_start_confirm")
	}
	if has("lock") {
		ks = append(ks, "op_lock", "op_unlock")
	}
	if has("oauth2") {
		ks = append(ks, "oauth2_start", "oauth2_callback")
	}
	if has("remember") && !c.hasSetup("expire") {
		ks = append(ks, "copy_cookie", "stale_cookie", "set_cookie")
	}
	if c.hasSetup("totp") {
		ks = append(ks, "totp_setup", "totp_confirm", "totp_remove", "totp_validate", "totp_setup_get")
	}
	if c.hasSetup("sms") {
		ks = append(ks, "sms_setup", "sms_confirm", "sms_remove", "sms_validate", "sms_setup_get")
	}
	if c.hasSetup("recovery") {
		ks = append(ks, "recovery_regen")
	}
	if c.EmailAuth2FA && (c.hasSetup("totp") || c.hasSetup("sms")) {
		ks = append(ks, "everify_start", "everify_end")
	}
	ks = append(ks, "op_update_password", "replay", "app_session_put")
	return ks
}

func (g *commonGen) gap(w *World) time.Duration {
	c := &w.Cfg
	var d time.Duration
	x := g.r.Intn(100)
	switch {
	case x < g.p.ThreshGaps:
		ths := []time.Duration{10 * time.Second, 30 * time.Second}
		if g.p.Thresholds != nil {
			ths = g.p.Thresholds(c)
		} else {
			if c.hasModule("lock") {
				ths = append(ths, c.LockWindow, c.LockDuration)
			}
			if c.hasSetup("expire") {
				ths = append(ths, c.ExpireAfter)
			}
			if c.hasModule("recover") {
				ths = append(ths, c.RecoverDur)
			}
		}
		d = durationsAround(g.r, ths[g.r.Intn(len(ths))])
	case x < g.p.ThreshGaps+g.p.SmallGaps:
		d = g.r.Dur(0, 4*time.Second)
	}
	if d < 0 {
		d = 0
	}
	if c.WholeSecondClock {
		d = d.Round(time.Second)
	}
	return d
}

func (g *commonGen) pickAcct(w *World, b int) int {
	n := len(w.Accts)
	if n == 0 {
		return -1
	}
	if g.r.Chance(3, 5) {
		return g.home[b] % n
	}
	if g.r.Chance(1, 12) {
		return -1 - g.r.Intn(3) // unknown account
	}
	return g.r.Intn(n)
}

var garbageStrings = []string{
	"", " ", "x", "password", "00000000", "' OR 1=1 --", "null", "true", "0", "\x00", "𝔘𝔫𝔦", "a;b", ";;", "oauth2;;google;;1",
	"AAAAAAAAAAAAAAAAAAAAAAAAAAAAAAAAAAAAAAAAAAAAAAAAAAAAAAAAAAAAAAAAAAAAAAAAAAAAAAAAAAAAAA==",
}

func (g *commonGen) garbage() *SecretRef {
	if g.r.Chance(1, 8) {
		return &SecretRef{Kind: "literal", Lit: strings.Repeat("Zz9!", 20+g.r.Intn(300))}
	}
	return &SecretRef{Kind: "literal", Lit: garbageStrings[g.r.Intn(len(garbageStrings))]}
}

// otherAcct picks an account different from a.
func (g *commonGen) otherAcct(w *World, a int) int {
	n := len(w.Accts)
	if n < 2 {
		return a
	}
	o := g.r.Intn(n - 1)
	if o >= a {
		o++
	}
	return o
}

// secretFor chooses the secret reference for a step kind aimed at account a.
func (g *commonGen) secretFor(w *World, kind string, a int, b int) *SecretRef {
	bad := g.r.Intn(100) < g.p.BadSecret
	kbKind := map[string]string{
		"login": "password", "otp_login": "otp", "recover_end": "recover", "recover_end_get": "recover",
		"confirm": "confirm", "everify_end": "everify", "oauth2_callback": "state",
	}[kind]
	if !bad {
		switch kind {
		case "everify_end":
			// the token mailed for this browser's session
			l := w.KB.list("everify", -1)
			for i := len(l) - 1; i >= 0; i-- {
				if l[i].Browser == b {
					return &SecretRef{Kind: "literal", Lit: l[i].Value}
				}
			}
			return &SecretRef{Kind: "everify", A: a, Idx: -1}
		case "oauth2_callback":
			return &SecretRef{Kind: "literal", Lit: w.Browsers[b].Session["oauth2_state"]}
		}
		if kbKind == "otp" && g.r.Bool() {
			// any of the outstanding one-time passwords, not only the newest
			var usableIdx []int
			for i, s := range w.KB.list("otp", a) {
				if s.Status == "valid" {
					usableIdx = append(usableIdx, i)
				}
			}
			if len(usableIdx) > 0 {
				return &SecretRef{Kind: kbKind, A: a, Idx: usableIdx[g.r.Intn(len(usableIdx))]}
			}
		}
		return &SecretRef{Kind: kbKind, A: a, Idx: -1}
	}
	switch g.r.Intn(9) {
	case 0:
		return &SecretRef{Kind: "empty"}
	case 1:
		return g.garbage()
	case 2: // someone else's valid secret
		return &SecretRef{Kind: kbKind, A: g.otherAcct(w, a), Idx: -1}
	case 3: // an older one of the same account (spent / superseded)
		return &SecretRef{Kind: kbKind, A: a, Idx: -2 - g.r.Intn(2)}
	case 4: // storage-side value replayed
		f := []string{"password", "otps", "recovery_codes", "confirm_selector", "confirm_verifier", "recover_selector", "recover_verifier", "totp_secret"}
		return &SecretRef{Kind: "stored", A: a, Lit: f[g.r.Intn(len(f))]}
	case 5:
		if kbKind == "password" {
			return &SecretRef{Kind: "oldpassword", A: a, Idx: -1}
		}
		return &SecretRef{Kind: kbKind, A: a, Idx: 0}
	case 6: // near miss of the valid one
		muts := []string{"suffix:x", "chop:1", "upper", "rot:3", "prefix: ", "suffix: "}
		if kbKind == "recover" || kbKind == "confirm" {
			muts = []string{fmt.Sprintf("flipbit:%d", g.r.Intn(512)), fmt.Sprintf("trunc:%d", g.r.Intn(64)), fmt.Sprintf("trunc:%d", 60+g.r.Intn(4)), "extend:0",
				fmt.Sprintf("splice:%d", g.otherAcct(w, a)), fmt.Sprintf("splice2:%d", g.otherAcct(w, a)), "suffix:.", "upper"}
		}
		return &SecretRef{Kind: kbKind, A: a, Idx: -1, Mut: muts[g.r.Intn(len(muts))]}
	case 7:
		if kbKind == "recover" || kbKind == "confirm" {
			return &SecretRef{Kind: kbKind, A: a, Idx: -1, Mut: []string{"nopad", "stdalpha", "crlf"}[g.r.Intn(3)]}
		}
		return &SecretRef{Kind: "password", A: a}
	default:
		return &SecretRef{Kind: kbKind, A: g.otherAcct(w, a), Idx: -1 - g.r.Intn(2)}
	}
}

// codeFor chooses the code for a 2FA step acting on account a in browser b.
func (g *commonGen) codeFor(w *World, kind string, a, b int) (*SecretRef, map[string]string) {
	bad := g.r.Intn(100) < g.p.BadSecret
	isTOTP := strings.HasPrefix(kind, "totp_")
	if !bad {
		if kind == "totp_confirm" && !g.r.Chance(1, 8) {
			return &SecretRef{Kind: "totp_pending", A: b}, nil
		}
		if g.r.Chance(1, 6) || kind == "totp_confirm" {
			return &SecretRef{Kind: "recovery", A: a, Idx: -1 - g.r.Intn(3)}, nil
		}
		if isTOTP {
			return &SecretRef{Kind: "totp", A: a}, nil
		}
		if g.r.Chance(1, 5) {
			return &SecretRef{Kind: "empty"}, nil // ask for a (re)send
		}
		// newest SMS code sent for this browser's session
		l := w.KB.list("sms", -1)
		for i := len(l) - 1; i >= 0; i-- {
			if l[i].Browser == b {
				return &SecretRef{Kind: "literal", Lit: l[i].Value}, nil
			}
		}
		return &SecretRef{Kind: "empty"}, nil
	}
	o := g.otherAcct(w, max(a, 0))
	switch g.r.Intn(12) {
	case 0:
		return &SecretRef{Kind: "empty"}, nil
	case 11: // the texted code pasted with a stray character, or a recovery code typed into the code field
		if !isTOTP {
			if g.r.Bool() {
				if l := w.KB.list("sms", -1); len(l) > 0 {
					return &SecretRef{Kind: "literal", Lit: l[len(l)-1].Value + []string{" ", "\n", ".", " ?"}[g.r.Intn(4)]}, nil
				}
			}
			return &SecretRef{Kind: "recovery", A: a, Idx: -1 - g.r.Intn(3)}, map[string]string{"as": "code"}
		}
		return &SecretRef{Kind: "totp", A: a, Mut: "suffix: "}, nil
	case 10: // the right TOTP code wrapped in white space
		return &SecretRef{Kind: "totp", A: a, Mut: []string{"suffix: ", "prefix: ", "suffix:\t", "suffix:\n", "prefix:\u00a0"}[g.r.Intn(5)]}, nil
	case 1:
		return &SecretRef{Kind: "literal", Lit: fmt.Sprintf("%06d", g.r.Intn(1000000))}, nil
	case 2: // another account's TOTP code
		return &SecretRef{Kind: "totp", A: o}, nil
	case 3: // stale TOTP code
		return &SecretRef{Kind: "totp", A: a, Idx: -3 - g.r.Intn(200)}, nil
	case 4: // code sent to someone else's session / phone
		if l := w.KB.list("sms", -1); len(l) > 0 {
			return &SecretRef{Kind: "literal", Lit: l[g.r.Intn(len(l))].Value}, nil
		}
		return g.garbage(), nil
	case 5: // another account's recovery code
		return &SecretRef{Kind: "recovery", A: o, Idx: -1}, nil
	case 6: // spent / regenerated recovery code of this account
		return &SecretRef{Kind: "recovery", A: a, Idx: g.r.Intn(3)}, nil
	case 7: // skewed TOTP
		return &SecretRef{Kind: "totp", A: a, Idx: []int{-2, -1, 1, 2}[g.r.Intn(4)]}, nil
	case 8:
		return &SecretRef{Kind: "stored", A: a, Lit: []string{"recovery_codes", "totp_secret", "otps"}[g.r.Intn(3)]}, map[string]string{"as": []string{"", "recovery"}[g.r.Intn(2)]}
	default:
		return g.garbage(), map[string]string{"as": []string{"", "recovery"}[g.r.Intn(2)]}
	}
}

// logoutMethods are the methods a logout request is tried with.
var logoutMethods = []string{"GET", "POST", "DELETE", "HEAD", "PUT", "OPTIONS"}

var goodPasswords = []string{"N3w-Passw0rd!", "Zebra#4Crossing", "tr0ub4dor&3X", "Summer-2031-rain", "Qw!7zzzzzzzz"}

// newPasswordFor is newPassword with, sometimes, the password the account
// already has (a change to the identical value is still a change).
func (g *commonGen) newPasswordFor(a int) *SecretRef {
	if a >= 0 && g.r.Chance(1, 8) {
		return &SecretRef{Kind: "password", A: a}
	}
	return g.newPassword()
}

func (g *commonGen) newPassword() *SecretRef {
	switch g.r.Intn(12) {
	case 10:
		// white space is part of a password
		return &SecretRef{Kind: "literal", Lit: []string{"Trailing-space1! ", " Leading-space1!", "Tab-at-the-end1!\t", "Newline-end-1!Aa\n", "In side-1!Aa", "  Both-ends-1!Aa  "}[g.r.Intn(6)]}
	case 11:
		return &SecretRef{Kind: "literal", Lit: strings.Repeat("Aa1!", 18) + "Z"} // 73 bytes
	case 0:
		return &SecretRef{Kind: "literal", Lit: "short1!"}
	case 1:
		return &SecretRef{Kind: "literal", Lit: "alllowercase"}
	case 2:
		if g.r.Bool() {
			return &SecretRef{Kind: "literal", Lit: "Aa1!" + strings.Repeat("é", 34)} // 72 bytes, 38 characters
		}
		return &SecretRef{Kind: "literal", Lit: strings.Repeat("Aa1!", 18)} // 72 bytes
	default:
		return &SecretRef{Kind: "literal", Lit: fmt.Sprintf("%s%d", goodPasswords[g.r.Intn(len(goodPasswords))], g.r.Intn(1000))}
	}
}

// sessAcct returns the account the browser's session names (-1 none).
func sessAcct(w *World, b int) int { return w.acctByPID(w.Browsers[b].Session["uid"]) }

// followUp continues a multi-request flow the browser is in the middle of.
func (g *commonGen) followUp(w *World, b int) *Step {
	s := w.Browsers[b].Session
	c := &w.Cfg
	var opts []Step
	if p := s["totp_pending"]; p != "" && c.hasSetup("totp") {
		a := w.acctByPID(p)
		sec, str := g.codeFor(w, "totp_validate", a, b)
		opts = append(opts, Step{Kind: "totp_validate", B: b, A: a, Sec: sec, Str: str})
	}
	if p := s["sms_pending"]; p != "" && c.hasSetup("sms") {
		a := w.acctByPID(p)
		sec, str := g.codeFor(w, "sms_validate", a, b)
		opts = append(opts, Step{Kind: "sms_validate", B: b, A: a, Sec: sec, Str: str})
	}
	if s["totp_secret"] != "" && c.hasSetup("totp") {
		a := sessAcct(w, b)
		sec, str := g.codeFor(w, "totp_confirm", a, b)
		opts = append(opts, Step{Kind: "totp_confirm", B: b, A: a, Sec: sec, Str: str})
	}
	if s["sms_number"] != "" && c.hasSetup("sms") {
		a := sessAcct(w, b)
		sec, str := g.codeFor(w, "sms_confirm", a, b)
		opts = append(opts, Step{Kind: "sms_confirm", B: b, A: a, Sec: sec, Str: str})
	}
	if s["twofactor_auth_token"] != "" && c.EmailAuth2FA {
		a := sessAcct(w, b)
		kind := "totp"
		if !c.hasSetup("totp") || c.hasSetup("sms") && g.r.Bool() {
			kind = "sms"
		}
		opts = append(opts, Step{Kind: "everify_end", B: b, A: a, Sec: g.secretFor(w, "everify_end", a, b), Str: map[string]string{"kind": kind}})
	}
	if s["oauth2_state"] != "" && c.hasModule("oauth2") {
		opts = append(opts, g.fill(w, "oauth2_callback", b))
	}
	if len(opts) == 0 {
		return nil
	}
	st := opts[g.r.Intn(len(opts))]
	return &st
}

func (g *commonGen) redir(st *Step) {
	if g.r.Intn(100) >= g.p.Redir {
		return
	}
	v := "/after/login?x=1"
	if g.p.RedirGen != nil {
		v = g.p.RedirGen(g.r)
	}
	if st.Str == nil {
		st.Str = map[string]string{}
	}
	st.Str["redir"] = v
	if g.r.Chance(1, 4) {
		st.Str["redir_in"] = "body"
	}
}

// fill builds a step of the given kind for browser b with random arguments.
func (g *commonGen) fill(w *World, kind string, b int) Step {
	c := &w.Cfg
	st := Step{Kind: kind, B: b, A: -1}
	switch kind {
	case "advance":
	case "login", "otp_login":
		st.A = g.pickAcct(w, b)
		st.Sec = g.secretFor(w, kind, st.A, b)
		st.RM = c.hasModule("remember") && g.r.Chance(1, 3)
		g.redir(&st)
		if st.RM && c.JSON && g.p.WrongJSONTypes && g.r.Chance(1, 4) {
			if st.Str == nil {
				st.Str = map[string]string{}
			}
			st.Str["rm_bool"] = "1"
		}
	case "login_get":
		g.redir(&st)
	case "otp_add", "otp_clear", "recovery_regen", "totp_setup", "totp_setup_get", "sms_setup_get":
		st.A = sessAcct(w, b)
	case "second_site":
		st.Str = map[string]string{"what": []string{"register", "login"}[g.r.Intn(2)]}
	case "logout":
		if g.r.Chance(1, 6) {
			st.Str = map[string]string{"method": logoutMethods[g.r.Intn(len(logoutMethods))]}
		}
	case "register":
		n := len(w.Accts)
		if g.r.Chance(1, 3) && n > 0 {
			n = g.r.Intn(n) // duplicate
		}
		pid, email := acctPID(c, n)
		if n < len(w.Accts) {
			pid, email = w.Accts[n].PID, w.Accts[n].Email
		}
		pw := g.newPassword().Lit
		st.A = n
		st.Fields = map[string]string{w.pidField(): pid, "password": pw, "confirm_password": pw}
		if c.UseUsername {
			st.Fields["email"] = email
		}
		if g.r.Chance(1, 3) {
			st.Fields["name"] = "Sim User"
		}
		if g.r.Chance(1, 4) {
			st.Fields[[]string{"confirmed", "locked", "is_admin", "attempt_count", "totp_secret_key"}[g.r.Intn(5)]] = "true"
		}
		if g.r.Chance(1, 8) {
			st.Fields["confirm_password"] = pw + "x"
		}
	case "recover_start":
		st.A = g.pickAcct(w, b)
	case "recover_end", "recover_end_get":
		st.A = g.pickAcct(w, b)
		st.Sec = g.secretFor(w, kind, st.A, b)
		st.Sec2 = g.newPasswordFor(st.A)
	case "confirm":
		st.A = g.pickAcct(w, b)
		st.Sec = g.secretFor(w, kind, st.A, b)
	case "op_lock", "op_unlock", "op_start_confirm":
		st.A = g.pickAcct(w, b)
		if st.A < 0 {
			st.A = 0
		}
	case "op_update_password":
		st.A = g.pickAcct(w, b)
		if st.A < 0 {
			st.A = 0
		}
		st.Sec = g.newPasswordFor(st.A)
		if g.r.Chance(1, 3) {
			st.Str = map[string]string{"via": "admin"}
		}
	case "totp_confirm", "totp_remove", "totp_validate", "sms_confirm", "sms_remove", "sms_validate":
		st.A = sessAcct(w, b)
		if st.A < 0 {
			if p := w.Browsers[b].Session[strings.SplitN(kind, "_", 2)[0]+"_pending"]; p != "" {
				st.A = w.acctByPID(p)
			}
		}
		st.Sec, st.Str = g.codeFor(w, kind, st.A, b)
		if strings.HasSuffix(kind, "_validate") {
			g.redir(&st)
		}
	case "sms_setup":
		st.A = sessAcct(w, b)
		num := ""
		switch g.r.Intn(6) {
		case 0:
		case 1: // somebody else's phone
			num = acctPhone(g.r.Intn(5))
		default:
			if st.A >= 0 {
				num = w.Accts[st.A].Phone
			} else {
				num = acctPhone(b)
			}
		}
		st.Str = map[string]string{"number": num}
	case "everify_start":
		st.A = sessAcct(w, b)
		kind2 := "totp"
		if !c.hasSetup("totp") || c.hasSetup("sms") && g.r.Bool() {
			kind2 = "sms"
		}
		st.Str = map[string]string{"kind": kind2}
	case "everify_end":
		st.A = sessAcct(w, b)
		kind2 := "totp"
		if !c.hasSetup("totp") || c.hasSetup("sms") && g.r.Bool() {
			kind2 = "sms"
		}
		st.Sec = g.secretFor(w, kind, st.A, b)
		st.Str = map[string]string{"kind": kind2}
	case "oauth2_start":
		st.Str = map[string]string{"provider": c.Providers[g.r.Intn(len(c.Providers))]}
		st.RM = c.hasModule("remember") && g.r.Chance(1, 3)
		g.redir(&st)
		delete(st.Str, "redir_in")
		if st.Str["redir"] != "" && g.r.Chance(1, 4) {
			// the parameter repeated: a benign and a hostile value in either order
			other := "/welcome"
			if g.p.RedirGen != nil && g.r.Bool() {
				other = g.p.RedirGen(g.r)
			}
			if g.r.Bool() {
				st.Str["redir"], st.Str["redir2"] = other, st.Str["redir"]
			} else {
				st.Str["redir2"] = other
			}
		}
	case "oauth2_callback":
		prov := c.Providers[g.r.Intn(len(c.Providers))]
		st.A = g.r.Intn(3)
		st.Str = map[string]string{"provider": prov, "code": "fresh"}
		st.Sec = g.secretFor(w, kind, st.A, b)
		switch g.r.Intn(12) {
		case 0:
			st.Str["error"] = "access_denied"
		case 1:
			st.Str["code"] = "replay"
		case 2:
			st.Str["code"] = "garbage-code"
		case 3:
			st.Str["nostate"] = "1"
		case 4:
			st.Str["uid"] = []string{"a;;b", "a;b", ";;", ";", "oauth2;;google;;7", "x;y", "x;;y", "üñí", "7", "u1abc", "U1ABC", "U1abc", "u1abc", "U1ABC"}[g.r.Intn(14)]
		case 5: // state of another browser
			ob := g.r.Intn(len(w.Browsers))
			st.Sec = &SecretRef{Kind: "literal", Lit: w.Browsers[ob].Session["oauth2_state"]}
		case 7, 8: // a near miss of the state this browser's session holds: a prefix, an extension, another case
			if cur := w.Browsers[b].Session["oauth2_state"]; cur != "" {
				near := []string{cur[:len(cur)/2], cur[:1], cur[:len(cur)-1], cur + "x", cur + "=", strings.ToUpper(cur), " " + cur}
				st.Sec = &SecretRef{Kind: "literal", Lit: near[g.r.Intn(len(near))]}
			}
		case 6: // a code obtained at another provider delivered to this provider's callback route
			if len(c.Providers) > 1 {
				for _, p := range c.Providers {
					if p != prov {
						st.Str["code_provider"] = p
					}
				}
			}
		}
	case "probe":
		paths := []string{"/probe/open", "/probe/mw/0/0/0/p", "/probe/mw/1/0/0/p", "/probe/mw/2/2/0/p", "/probe/mw/3/1/0/p", "/probe/mw/1/1/1/p"}
		if c.hasModule("lock") {
			paths = append(paths, "/probe/lock", "/nok/lock")
		}
		if c.hasModule("confirm") {
			paths = append(paths, "/probe/confirm", "/nok/confirm")
		}
		st.Str = map[string]string{"path": paths[g.r.Intn(len(paths))]}
	case "copy_cookie":
		st.Str = map[string]string{"from": fmt.Sprint(g.r.Intn(len(w.Browsers)))}
	case "stale_cookie":
		st.Str = map[string]string{"from": fmt.Sprint(g.r.Intn(len(w.Browsers))), "idx": fmt.Sprint(-1 - g.r.Intn(3))}
	case "set_cookie":
		st.Sec = g.garbage()
		switch g.r.Intn(3) {
		case 0:
			st.Sec = &SecretRef{Kind: "rmtable"}
		case 1: // well-formed cookie naming a real account, never issued
			st.Sec = &SecretRef{Kind: "forged_rm", A: g.pickAcct(w, b), Idx: g.r.Intn(1000)}
		}
	case "app_session_put":
		st.Str = map[string]string{"key": appKeys[g.r.Intn(len(appKeys))], "val": fmt.Sprintf("v%d", g.r.Intn(100))}
	}
	return st
}

func (g *commonGen) maybeFault(w *World, st *Step) {
	if g.p.FaultRate == 0 || g.r.Intn(1000) >= g.p.FaultRate {
		return
	}
	kinds := []string{"err", "err", "notfound", "found"}
	st.Fault = &FaultDirective{Index: g.r.Intn(5), Kind: kinds[g.r.Intn(len(kinds))]}
	if g.r.Chance(1, 3) {
		// aim at one kind of call
		sites := []string{"db.Load", "db.Save", "db.UseRememberToken", "db.AddRememberToken", "hash.cmp", "hash.gen", "render.view", "sms.send", "db.LoadByRecoverSelector", "db.LoadByConfirmSelector",
			"db.DelRememberTokens", "idp.token", "idp.userinfo", "mail.send", "db.Create", "db.SaveOAuth2", "db.NewFromOAuth2"}
		st.Fault.Site = sites[g.r.Intn(len(sites))]
		st.Fault.Index = g.r.Intn(2)
	}
}

func (g *commonGen) Next(w *World, n int) *Step {
	if n >= g.p.MaxSteps {
		return nil
	}
	var st Step
	if len(g.queue) > 0 {
		st = g.queue[0]
		g.queue = g.queue[1:]
	} else {
		b := g.r.Intn(len(w.Browsers))
		var fu *Step
		if g.r.Intn(100) < g.p.FollowUp {
			fu = g.followUp(w, b)
		}
		switch {
		case fu != nil:
			st = *fu
		case len(g.p.Templates) > 0 && g.r.Intn(100) < g.p.Template:
			steps := g.template(w, g.p.Templates[g.r.Intn(len(g.p.Templates))], b)
			if len(steps) == 0 {
				st = g.fill(w, "advance", b)
			} else {
				st = steps[0]
				g.queue = append(g.queue, steps[1:]...)
			}
		default:
			ks := enabledKinds(&w.Cfg)
			ws := make([]int, len(ks))
			for i, k := range ks {
				ws[i] = g.weight(k)
			}
			st = g.fill(w, ks[g.r.Weighted(ws)], b)
		}
	}
	if st.Gap == 0 {
		st.Gap = g.gap(w)
	}
	if st.Kind == "advance" && st.Gap == 0 {
		st.Gap = time.Second
	}
	g.maybeFault(w, &st)
	g.decorate(&st)
	return &st
}

// oddHeaders are request headers browsers, proxies and scripts really send and
// that an authentication library has no business acting on.
var oddHeaders = []string{"Sec-Purpose: prefetch;prerender", "Purpose: prefetch", "X-Moz: prefetch", "X-Purpose: preview",
	"X-HTTP-Method-Override: DELETE", "X-HTTP-Method-Override: POST", "X-HTTP-Method-Override: GET", "Access-Control-Request-Method: POST",
	"X-Requested-With: XMLHttpRequest", "X-Forwarded-For: 203.0.113.9", "X-Forwarded-Host: evil.example", "Origin: https://evil.example",
	"Referer: https://evil.example/page", "Accept: application/json", "Cache-Control: no-cache", "DNT: 1"}

var oddQueries = []string{"_method=DELETE", "_method=delete", "_method=POST", "_method=GET", "format=json", "debug=1", "callback=x"}

// decorate attaches, to some requests, a header or a query parameter the
// flows do not know about.
func (g *commonGen) decorate(st *Step) {
	switch st.Kind {
	case "advance", "restart", "drop_session", "copy_cookie", "stale_cookie", "set_cookie", "app_session_put", "second_site", "replay",
		"op_lock", "op_unlock", "op_update_password", "op_start_confirm", "op_delete":
		return
	}
	d := g.r.Intn(24)
	if d > 2 {
		return
	}
	str := map[string]string{}
	for k, v := range st.Str {
		str[k] = v
	}
	if d < 2 {
		str["hdr"] = oddHeaders[g.r.Intn(len(oddHeaders))]
	} else if st.Kind != "probe" && st.Kind != "oauth2_callback" {
		str["xquery"] = oddQueries[g.r.Intn(len(oddQueries))]
	}
	st.Str = str
}
