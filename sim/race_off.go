//go:build !race

package sim

func raceDisable() {}
func raceEnable()  {}

const raceBuild = false
