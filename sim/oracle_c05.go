package sim

import (
	"encoding/json"
	"fmt"
	"strings"
)

func jsonUnmarshal(s string, v interface{}) error { return json.Unmarshal([]byte(s), v) }

// c05Oracle: confirm / recover links work once, for their account, unmodified.
type c05Oracle struct {
	rejections map[int]int       // secret id -> near-miss / wrong submissions seen while it was outstanding
	mailed     map[string]string // every token value ever mailed -> "kind/recipient/step"
}

func newC05Oracle(w *World) Oracle {
	return &c05Oracle{rejections: map[int]int{}, mailed: map[string]string{}}
}

func tokenReason(w *World, p *Presented, a int, now *Obs, kind string) string {
	if p == nil || p.Known == nil || p.Known.Kind != kind {
		return "unknown"
	}
	if p.Known.Acct != a {
		return "foreign"
	}
	if !usable(p.Status) {
		return p.Status
	}
	if kind == "recover" && w.recoverTokenAge(p.Known, now.Now) == "expired" {
		return "expired"
	}
	return ""
}

func (c *c05Oracle) Check(w *World, o *Obs) []Violation {
	var out []Violation
	st := o.Step
	// "accepted exactly once", "until a newer request replaces it": every
	// request for a token issues a token of its own - a value that was mailed
	// before (used up, superseded or still outstanding) never goes out again
	for _, m := range o.Mails {
		if (m.Kind != "confirm" && m.Kind != "recover") || len(m.Token) < 8 {
			continue
		}
		if first, seen := c.mailed[m.Token]; seen {
			out = append(out, viol("C05", "token_issued_twice", st.Kind, o,
				fmt.Sprintf("the %s token mailed now is the value that was mailed before (%s): the earlier link is this link", m.Kind, first), "kind", m.Kind))
		} else {
			c.mailed[m.Token] = fmt.Sprintf("%s to %s at step %d", m.Kind, strings.Join(m.To, ","), o.N)
			w.Stats.Reach["c05_fresh_token_mailed"]++
		}
	}
	if !o.IsHTTP {
		return out
	}
	faulted := o.FaultFired != "" || o.Panic != ""
	tok := o.presented("token")
	switch st.Kind {
	case "confirm":
		if tok == nil {
			return nil
		}
		accepted := ""
		for _, pid := range sortedRowKeys(o.RowsAfter) {
			after := o.RowsAfter[pid]
			before := o.RowsBefore[pid]
			if before == nil {
				continue
			}
			if !before.Confirmed && after.Confirmed || before.ConfirmSelector != "" && after.ConfirmSelector == "" {
				accepted = pid
			}
		}
		if accepted != "" {
			a := w.acctByPID(accepted)
			if why := tokenReason(w, tok, a, o, "confirm"); why != "" {
				out = append(out, viol("C05", "confirm_accepted", st.Kind, o,
					fmt.Sprintf("confirmation of %s accepted a token that is %s (submitted %q)", accepted, why, clip(tok.Value, 100)), "reason", why))
			} else {
				w.Stats.Reach["c05_confirm_accepted"]++
				if c.rejections[tok.Known.ID] > 0 {
					w.Stats.Reach["c05_genuine_usable_after_rejects"]++
				}
				if tok.Value != tok.Known.Value {
					w.Stats.Reach["c05_alt_spelling_accepted"]++
				}
			}
			// nothing else may change
			for pid, before := range o.RowsBefore {
				if pid != accepted && (o.RowsAfter[pid] == nil || o.RowsAfter[pid].canon() != before.canon()) {
					out = append(out, viol("C05", "confirm_touched_other", st.Kind, o, fmt.Sprintf("confirming %s changed %s", accepted, pid)))
				}
			}
			return out
		}
		// rejected
		if o.rowsChanged() && !faulted {
			out = append(out, viol("C05", "rejected_changed_state", st.Kind, o, "a rejected confirmation token changed stored state"))
		}
		c.noteReject(w, o, tok, "confirm")
		if tok.Known != nil && tok.Known.Kind == "confirm" && tok.Status == "valid" && tok.Value == tok.Known.Value && !faulted && tok.Known.Acct >= 0 &&
			o.Method == w.Cfg.MailRouteMethod {
			pid := w.Accts[tok.Known.Acct].PID
			if row := o.RowsBefore[pid]; row != nil {
				out = append(out, viol("C05", "genuine_rejected", st.Kind, o,
					fmt.Sprintf("the genuine, unused confirmation token of %s was rejected (status %d loc %q errs %v)", pid, o.Status, o.Location, o.HandlerErrs)))
			}
		}
	case "recover_end":
		if tok == nil || o.Method != "POST" {
			return nil
		}
		changed := ""
		for _, pid := range sortedRowKeys(o.RowsAfter) {
			after := o.RowsAfter[pid]
			if before := o.RowsBefore[pid]; before != nil && before.Password != after.Password {
				changed = pid
			}
		}
		if changed != "" {
			a := w.acctByPID(changed)
			why := tokenReason(w, tok, a, o, "recover")
			if why != "" {
				out = append(out, viol("C05", "recover_accepted", st.Kind, o,
					fmt.Sprintf("password of %s changed on a token that is %s (submitted %q)", changed, why, clip(tok.Value, 100)), "reason", why))
			} else {
				w.Stats.Reach["c05_recover_accepted"]++
				if c.rejections[tok.Known.ID] > 0 {
					w.Stats.Reach["c05_genuine_usable_after_rejects"]++
				}
			}
			for pid, before := range o.RowsBefore {
				if pid != changed && (o.RowsAfter[pid] == nil || o.RowsAfter[pid].canon() != before.canon()) {
					out = append(out, viol("C05", "recover_touched_other", st.Kind, o, fmt.Sprintf("recovering %s changed %s", changed, pid)))
				}
			}
			return out
		}
		if o.rowsChanged() && !faulted {
			out = append(out, viol("C05", "rejected_changed_state", st.Kind, o, "a rejected recovery submission changed stored state"))
		}
		c.noteReject(w, o, tok, "recover")
		newPw := w.lastSec2
		if o.Replay {
			newPw = formValue(o.ReqBody, "password", w.Cfg.JSON)
		}
		confirmOK := formValue(o.ReqBody, "confirm_password", w.Cfg.JSON) == newPw
		if tok.Known != nil && tok.Known.Kind == "recover" && tok.Status == "valid" && tok.Value == tok.Known.Value && !faulted && tok.Known.Acct >= 0 &&
			w.recoverTokenAge(tok.Known, o.Now) == "fresh" && policyVerdict(&w.Cfg, newPw) == "ok" && confirmOK && len(newPw) <= 72 {
			pid := w.Accts[tok.Known.Acct].PID
			if row := o.RowsBefore[pid]; row != nil {
				out = append(out, viol("C05", "genuine_rejected", st.Kind, o,
					fmt.Sprintf("the genuine, unused, unexpired recovery token of %s with a policy-conforming password was rejected (status %d loc %q errs %v body %s)", pid, o.Status, o.Location, o.HandlerErrs, clip(o.Body, 200))))
			}
		}
	}
	return out
}

func (c *c05Oracle) noteReject(w *World, o *Obs, tok *Presented, kind string) {
	why := "unknown"
	if tok.Known != nil {
		why = tok.Status
		if kind == "recover" && usable(tok.Status) && w.recoverTokenAge(tok.Known, o.Now) != "fresh" {
			why = "expired"
		}
	}
	w.Stats.Reach["c05_rejected_"+kind+"_"+why]++
	// near misses count against the outstanding token of the targeted account
	if o.Acct >= 0 {
		for _, s := range w.KB.list(kind, o.Acct) {
			if s.Status == "valid" && (tok.Known == nil || tok.Known.ID != s.ID) {
				c.rejections[s.ID]++
			}
		}
	}
}

func clip(s string, n int) string {
	if len(s) > n {
		return s[:n] + "..."
	}
	return s
}

func (c *c05Oracle) Finish(w *World) []Violation { return nil }
