package sim

import (
	"fmt"
	"strings"

	"github.com/volatiletech/authboss/v3"
)

// --- C14: OAuth2 callbacks need the session's own unused state -------------------

type c14Oracle struct {
	pairToPID map[string]string
	pidToPair map[string]string
}

func newC14Oracle(w *World) Oracle {
	return &c14Oracle{pairToPID: map[string]string{}, pidToPair: map[string]string{}}
}

func (c *c14Oracle) Check(w *World, o *Obs) []Violation {
	var out []Violation
	st := o.Step
	if !o.IsHTTP || st.Kind != "oauth2_callback" {
		return nil
	}
	uid, login := w.loginPut(o)
	sessState := o.SessBefore["oauth2_state"]
	p := o.presented("state")
	carried := ""
	if p != nil && st.str("nostate") == "" {
		carried = p.Value
	}
	matches := sessState != "" && carried == sessState
	issued := p != nil && p.Known != nil && p.Known.Kind == "state" && p.Known.Browser == st.B && usable(p.Status)
	faulted := o.FaultFired != "" || o.Panic != ""

	if login {
		switch {
		case st.str("error") != "":
			out = append(out, viol("C14", "error_callback_logged_in", st.Kind, o, fmt.Sprintf("callback with error=%q logged in %q", st.str("error"), uid)))
		case !matches:
			out = append(out, viol("C14", "login_without_matching_state", st.Kind, o,
				fmt.Sprintf("callback logged in %q although the session state is %q and the request carried %q", uid, clip(sessState, 20), clip(carried, 20)),
				"session_has_state", fmt.Sprint(sessState != ""), "carried", map[bool]string{true: "some", false: "none"}[carried != ""]))
		case !issued:
			out = append(out, viol("C14", "login_with_unissued_state", st.Kind, o, fmt.Sprintf("callback logged in %q with a state no preceding start request of this browser issued (status %v)", uid, p.Status)))
		default:
			w.Stats.Reach["c14_login"]++
		}
		// the session names exactly the pair the provider reported
		u := w.idpUser(st)
		provider := strings.ToLower(st.str("provider"))
		row := o.RowsAfter[uid]
		if !o.CodeUnused {
			out = append(out, viol("C14", "login_without_fresh_code", st.Kind, o, fmt.Sprintf("callback logged in %q with code class %q", uid, st.str("code"))))
		} else if row == nil || row.OAuth2Provider != provider || row.OAuth2UID != u.UID {
			got := "no row"
			if row != nil {
				got = row.OAuth2Provider + "/" + row.OAuth2UID
			}
			out = append(out, viol("C14", "wrong_identity", st.Kind, o, fmt.Sprintf("provider %s reported uid %q but the session names %q (%s)", provider, u.UID, uid, got)))
		} else {
			pair := provider + "\x00" + u.UID
			if old, ok := c.pairToPID[pair]; ok && old != uid {
				out = append(out, viol("C14", "pair_maps_to_two_ids", st.Kind, o, fmt.Sprintf("(%s,%q) mapped to %q and %q", provider, u.UID, old, uid)))
			}
			if old, ok := c.pidToPair[uid]; ok && old != pair {
				out = append(out, viol("C14", "two_pairs_one_id", st.Kind, o, fmt.Sprintf("identifier %q names both %q and %q", uid, old, pair)))
			}
			c.pairToPID[pair], c.pidToPair[uid] = uid, pair
			if pp, pu, err := authboss.ParseOAuth2PID(uid); err == nil {
				if pp != provider || pu != u.UID {
					out = append(out, viol("C14", "pid_parses_to_other_pair", st.Kind, o, fmt.Sprintf("identifier %q parses to (%s,%q), not (%s,%q)", uid, pp, pu, provider, u.UID)))
				} else {
					w.Stats.Reach["c14_pid_roundtrip"]++
				}
			} else {
				w.Stats.Reach["c14_pid_unparsable"]++
			}
		}
	}
	// "on success the session identifies precisely the pair the provider
	// reported": a callback that matched the state, exchanged a fresh code and
	// saved that user must leave the session naming it - also when the
	// browser was already signed in as somebody else
	if matches && issued && !faulted && !o.errorOutcome() && o.CodeUnused && st.str("error") == "" {
		u := w.idpUser(st)
		want := authboss.MakeOAuth2PID(strings.ToLower(st.str("provider")), u.UID)
		row := o.RowsAfter[want]
		gated := row != nil && (w.Cfg.hasModule("lock") && !row.Locked.Before(o.Now) || w.Cfg.hasModule("confirm") && !row.Confirmed)
		saved := row != nil && (o.RowsBefore[want] == nil || o.RowsBefore[want].canon() != row.canon())
		if saved && !gated && !login && o.SessAfter["totp_pending"] == "" && o.SessAfter["sms_pending"] == "" {
			out = append(out, viol("C14", "success_without_identity", st.Kind, o,
				fmt.Sprintf("the callback saved %q and answered %d %q, yet the session names %q", want, o.Status, o.Location, o.uidAfter()), "had_uid", fmt.Sprint(o.uidBefore() != "")))
		} else if saved && login && o.uidBefore() != "" && o.uidBefore() != uid {
			w.Stats.Reach["c14_login_over_other_identity"]++
		}
	}
	// ... whatever became of the callback afterwards: a matched state is spent
	// as soon as a response reaches the browser. (An error the error handler
	// answers with a 500 is such a response; the silent handler writes nothing,
	// so nothing can be delivered; a fault in the session store itself is not
	// the library's doing.)
	answered := !o.errorOutcome() || (w.Cfg.Err500 && o.Status == 500 && o.Panic == "")
	benign := o.FaultFired == "" || strings.HasPrefix(o.FaultFired, "db.") || strings.HasPrefix(o.FaultFired, "idp.")
	if matches && answered && benign && o.Panic == "" {
		if o.SessAfter["oauth2_state"] != "" {
			out = append(out, viol("C14", "state_not_spent", st.Kind, o, "a callback that matched the session state left the state in the session"))
		} else {
			w.Stats.Reach["c14_state_spent"]++
		}
	}
	if !matches || st.str("error") != "" {
		if o.rowsChanged() {
			out = append(out, viol("C14", "failed_callback_changed_users", st.Kind, o, "a callback without the session's state (or with a provider error) created or updated a user"))
		} else {
			cls := "mismatch"
			switch {
			case st.str("error") != "":
				cls = "provider_error"
			case sessState == "":
				cls = "no_session_state"
			case o.Replay:
				cls = "replayed"
			case p != nil && p.Known != nil && p.Known.Browser != st.B:
				cls = "cross_browser"
			}
			w.Stats.Reach["c14_refused_"+cls]++
		}
	}
	return out
}

func (c *c14Oracle) Finish(w *World) []Violation { return nil }

// --- C15: client-supplied return targets never redirect off-site -------------------

const siteHost = "site.example"

func isSpecialScheme(s string) bool {
	switch strings.ToLower(s) {
	case "http", "https", "ftp", "ws", "wss", "file":
		return true
	}
	return false
}

// locationClass classifies where a browser ends up when it follows loc from a
// page of https://site.example (WHATWG URL parsing: leading/trailing C0 and
// space stripped, tab/CR/LF removed everywhere, backslash == slash for special
// schemes, scheme-relative resolution). Returns "local" or an off-site class.
func locationClass(loc string) string {
	s := strings.TrimFunc(loc, func(r rune) bool { return r <= 0x20 })
	hadCtl := s != loc
	s2 := strings.NewReplacer("\t", "", "\n", "", "\r", "").Replace(s)
	if s2 != s {
		hadCtl = true
	}
	s = s2
	ctl := func(c string) string {
		if hadCtl {
			return c + "_ctl"
		}
		return c
	}
	// scheme?
	scheme := ""
	for i := 0; i < len(s); i++ {
		ch := s[i]
		if ch == ':' && i > 0 {
			scheme = s[:i]
			break
		}
		isAlpha := ch >= 'a' && ch <= 'z' || ch >= 'A' && ch <= 'Z'
		if !(isAlpha || i > 0 && (ch >= '0' && ch <= '9' || ch == '+' || ch == '-' || ch == '.')) {
			break
		}
	}
	slash := func(c byte) bool { return c == '/' || c == '\\' }
	hostOf := func(rest string) string {
		// rest begins after the authority slashes
		end := len(rest)
		for i := 0; i < len(rest); i++ {
			if slash(rest[i]) || rest[i] == '?' || rest[i] == '#' {
				end = i
				break
			}
		}
		auth := rest[:end]
		if i := strings.LastIndexByte(auth, '@'); i >= 0 {
			auth = auth[i+1:]
		}
		if i := strings.LastIndexByte(auth, ':'); i >= 0 && !strings.Contains(auth[i:], "]") {
			auth = auth[:i]
		}
		return strings.ToLower(auth)
	}
	if scheme != "" {
		rest := s[len(scheme)+1:]
		if !isSpecialScheme(scheme) {
			return ctl("other_scheme")
		}
		if strings.EqualFold(scheme, "https") {
			// same scheme as the base: "https:foo" and "https:/foo" are relative
			if len(rest) >= 2 && slash(rest[0]) && slash(rest[1]) {
				i := 0
				for i < len(rest) && slash(rest[i]) {
					i++
				}
				if hostOf(rest[i:]) == siteHost {
					return "local"
				}
				return ctl("absolute")
			}
			return "local"
		}
		// other special scheme: any number of slashes, then the authority
		i := 0
		for i < len(rest) && slash(rest[i]) {
			i++
		}
		return ctl("absolute")
	}
	if len(s) >= 2 && slash(s[0]) && slash(s[1]) {
		i := 0
		for i < len(s) && slash(s[i]) {
			i++
		}
		if hostOf(s[i:]) == siteHost {
			return "local"
		}
		if s[0] == '/' && s[1] == '/' {
			return ctl("scheme_relative")
		}
		return ctl("backslash")
	}
	return "local"
}

type c15Oracle struct{}

func newC15Oracle(w *World) Oracle { return &c15Oracle{} }

func (c *c15Oracle) Check(w *World, o *Obs) []Violation {
	var out []Violation
	st := o.Step
	if !o.IsHTTP || o.Location == "" {
		return nil
	}
	if st.Kind == "oauth2_start" && !o.Replay {
		return nil // the redirect to the provider is configured, not client supplied
	}
	if st.Kind == "replay" || o.Replay {
		if strings.Contains(o.Target, "/oauth2/") && !strings.Contains(o.Target, "/callback/") {
			return nil
		}
	}
	cls := locationClass(o.Location)
	supplied := st.str("redir")
	if st.Kind == "oauth2_callback" {
		supplied = oauthRedirParam(o.SessBefore["oauth2_params"])
	}
	mode := "redirect"
	if w.Cfg.JSON {
		mode = "json"
	}
	if cls != "local" {
		out = append(out, viol("C15", "offsite", st.Kind, o,
			fmt.Sprintf("response sends the browser to %q which resolves off-site (%s); client-supplied target was %q", o.Location, cls, supplied), "class", cls, "mode", mode))
		return out
	}
	if supplied != "" {
		if _, ok := w.loginPut(o); ok {
			if locationClass(supplied) == "local" {
				if o.Location == supplied || strings.HasSuffix(o.Location, supplied) || strings.HasPrefix(o.Location, strings.SplitN(supplied, "?", 2)[0]) {
					w.Stats.Reach["c15_local_target_honoured_"+st.Kind]++
				}
			} else {
				w.Stats.Reach["c15_offsite_target_ignored_"+st.Kind]++
				w.Stats.Reach["c15_offsite_target_ignored"]++
			}
		}
	}
	return out
}

func oauthRedirParam(raw string) string {
	m := map[string]string{}
	if raw == "" || jsonUnmarshal(raw, &m) != nil {
		return ""
	}
	return m["redir"]
}

func (c *c15Oracle) Finish(w *World) []Violation { return nil }

// genRedirTarget draws a return target from the grammar of DESIGN §7 C15.
func genRedirTarget(r *Rng) string {
	hosts := []string{"evil.example", "evil.example:8443", "site.example.evil.example", "site.example@evil.example", "xn--80ak6aa92e.com", "[::1]", "127.0.0.1"}
	h := hosts[r.Intn(len(hosts))]
	paths := []string{"", "/", "/x", "/a/b?c=d", "/%2e%2e/", "/#f"}
	p := paths[r.Intn(len(paths))]
	switch r.Intn(26) {
	case 24, 25: // values that are still escaped when the library sees them (escaped twice on the wire)
		return []string{"%2F%2F" + h + p, "%2f%2f" + h + p, "%2F%5C" + h + p, "%2F%09%2F" + h, "%2F/" + h + p, "/%2F%2F" + h, "%5C%5C" + h + p, "https%3A%2F%2F" + h + p}[r.Intn(8)]
	case 22, 23: // a local target that itself carries a return target: the login page with a hostile redir inside
		inner := []string{"//" + h + p, "https://" + h + p, "/\\" + h, "%2F%2F" + h + "%2Fx", "https:%2F%2F" + h}[r.Intn(5)]
		return []string{"/auth/login", "/login", "/x/y/login", "/app/login"}[r.Intn(4)] + "?redir=" + inner
	case 20, 21: // absolute URLs that name the site itself, with paths that are off-site targets in their own right
		tail := []string{"//" + h + p, "/\\" + h + p, "/" + p, "/%2F" + h, "//" + h + "/..", "/\t/" + h}[r.Intn(6)]
		return []string{"https://site.example", "http://site.example", "HTTPS://SITE.EXAMPLE", "//site.example", "https://site.example:443"}[r.Intn(5)] + tail
	case 0, 1, 2, 3: // benign local targets
		return []string{"/dashboard", "/after/login?x=1", "/a/b/c", "/p?next=%2Fq", "/with space", "/ünï", "relative/path", "?only=query", "/a//b"}[r.Intn(9)]
	case 4:
		return "https://" + h + p
	case 5:
		return "http://" + h + p
	case 6:
		return "//" + h + p
	case 7:
		return "/\\" + h + p
	case 8:
		return "\\\\" + h + p
	case 9:
		return "\\/" + h + p
	case 10:
		ins := []string{"\t", "\n", "\r", "\r\n"}[r.Intn(4)]
		return "/" + ins + "/" + h + p
	case 11:
		return []string{" ", "\t", "\x00", "\x01", "\n"}[r.Intn(5)] + "//" + h + p
	case 12:
		return "https:/" + h + p
	case 13:
		return "https:" + h + p
	case 14:
		return "http:" + []string{"", "/", "\\"}[r.Intn(3)] + h + p
	case 15:
		return []string{"javascript:alert(1)", "data:text/html,x", "mailto:a@b.c", "ftp://" + h + "/"}[r.Intn(4)]
	case 16:
		return "HtTpS://" + h + p
	case 17:
		return "///" + h + p
	case 18:
		return "/%2F" + h + p
	default:
		return "h\tttps://" + h + p
	}
}
