package sim

import (
	"encoding/json"
	"fmt"
	"sort"
	"strings"
	"testing"
	"testing/synctest"
)

// C07, overlapping presentations: "exactly once" also when the same cookie is
// presented by several browsers whose requests overlap (theft, or the parallel
// requests of a page load). One account logs in with rm; the cookie is copied
// into N racing browsers; their requests run as tasks of the concurrent
// scheduler, which decides at every seam (each storage call, each client-state
// read and write) who proceeds. Afterwards: exactly one racer was authenticated,
// it holds a fresh cookie, every other racer was told to drop the cookie, and
// the account has exactly one stored token.

type c07ConcExtra struct {
	Racers int `json:"racers"`
}

func c07ConcGenerate(seed uint64, tier string) Plan {
	r := NewRng(seed ^ 0xc07c07)
	cfg := baseConfig(r.Fork(1))
	cfg.dropSetups("expire", "totp", "sms")
	cfg.ensureModules("auth", "remember")
	cfg.dropModules("lock", "confirm")
	cfg.EmailAuth2FA = false
	n := 2 + r.Intn(3)
	cfg.NBrowsers = n + 1
	cfg.NAccounts = 2
	cfg.Accounts = []AcctSpec{{Confirmed: true}, {Confirmed: true}}
	ex, _ := json.Marshal(c07ConcExtra{Racers: n})
	plan := Plan{Prop: "C07", Seed: seed, Tier: tier, Mode: "c07conc", Cfg: cfg, Extra: ex}
	paths := []string{"/probe/open", "/probe/mw/0/0/0/p", "/probe/mw/1/1/0/p"}
	for k := 1; k <= n; k++ {
		plan.Steps = append(plan.Steps, Step{Kind: "probe", B: k, Str: map[string]string{"path": paths[r.Intn(len(paths))]}})
	}
	return plan
}

func c07ConcExec(t *testing.T, plan Plan, keepTrace bool) *RunResult {
	res := &RunResult{Plan: plan, Stats: newStats()}
	dg := newDigester(keepTrace)
	var hp interface{}
	func() {
		defer func() {
			if r := recover(); r != nil {
				hp = r
			}
		}()
		bubble(t, func(t *testing.T) {
			w := NewWorld(t, plan.Cfg, plan.Seed, true)
			defer w.Close()
			cs := w.sched.(*concSched)
			cs.rng = NewRng(plan.Seed ^ 0x7a11)
			w.rand.perTask = func() *Rng {
				if tk := cs.lookup(goid()); tk != nil {
					return tk.rng
				}
				return nil
			}
			owner := w.Accts[0]
			start := func(c *concClient) {
				c.task = cs.claimClient(c.n, NewRng(plan.Seed^uint64(0x9e37*(c.n+1))))
				go func() {
					raceDisable()
					c.task.gid.Store(goid())
					raceEnable()
					cs.park(c.task, "start")
					c.runScript()
					cs.finish(c.task)
				}()
			}
			// phase 1: the owner logs in and asks to be remembered
			c0 := &concClient{n: 0, w: w, pid: owner.PID, email: owner.Email, pw: w.KB.Password[0], script: []Step{{Kind: "login_rm", B: 0}}}
			start(c0)
			if err := cs.run(); err != nil {
				panic("C07 concurrent scheduler: " + err.Error())
			}
			synctest.Wait()
			cookie := w.Browsers[0].Cookies["rm"]
			dg.line("issued cookie present=%v tokens=%d", cookie != "", len(w.DB.rmSnapshot()))
			if cookie == "" {
				return
			}
			// phase 2: the racers
			var racers []*concClient
			for _, st := range plan.Steps {
				if st.B <= 0 || st.B >= len(w.Browsers) || st.B >= maxClients {
					continue
				}
				br := w.Browsers[st.B]
				br.Session = map[string]string{}
				br.Cookies = map[string]string{"rm": cookie}
				c := &concClient{n: st.B, w: w, pid: owner.PID, email: owner.Email, script: []Step{st}}
				racers = append(racers, c)
			}
			firstPick := len(cs.picks)
			for _, c := range racers {
				start(c)
			}
			if err := cs.run(); err != nil {
				panic("C07 concurrent scheduler: " + err.Error())
			}
			synctest.Wait()
			for _, p := range cs.picks[firstPick:] {
				dg.line("pick %s", p)
			}
			res.Stats.Reach["c07_conc_picks"] += len(cs.picks) - firstPick
			var authed, dropped, kept []int
			fresh := map[string][]int{}
			for _, c := range racers {
				br := w.Browsers[c.n]
				dg.line("racer %d sess=%s cook=%s", c.n, canonMap(br.Session), canonMap(br.Cookies))
				for _, l := range c.log {
					dg.line("  c%d %s", c.n, l)
				}
				res.Stats.Requests++
				switch {
				case br.Session["uid"] == owner.PID:
					authed = append(authed, c.n)
					fresh[br.Cookies["rm"]] = append(fresh[br.Cookies["rm"]], c.n)
				case br.Cookies["rm"] == "":
					dropped = append(dropped, c.n)
				default:
					kept = append(kept, c.n)
				}
			}
			tokens := 0
			for _, tkn := range w.DB.rmSnapshot() {
				if strings.HasPrefix(tkn, owner.PID+"|") {
					tokens++
				}
			}
			dg.line("authed=%v dropped=%v kept=%v tokens=%d", authed, dropped, kept, tokens)
			add := func(clause, detail string) {
				v := viol("C07", clause, "overlapping_requests", nil, detail)
				res.Violations = append(res.Violations, v)
				dg.line("VIOLATION %s :: %s", v.Sig(), v.Detail)
			}
			switch {
			case len(authed) > 1:
				add("cookie_used_twice", fmt.Sprintf("one remember cookie presented by %d browsers whose requests overlapped authenticated %d of them (browsers %v)", len(racers), len(authed), authed))
			case len(authed) == 0:
				add("valid_cookie_not_honoured", fmt.Sprintf("a valid remember cookie presented by %d overlapping requests authenticated none of them", len(racers)))
			default:
				res.Stats.Reach["c07_conc_exactly_one"]++
				if nc := w.Browsers[authed[0]].Cookies["rm"]; nc == "" || nc == cookie {
					add("cookie_not_rotated", fmt.Sprintf("the winning request of browser %d did not receive a fresh cookie", authed[0]))
				}
				if w.Browsers[authed[0]].Session["halfauth"] != "true" {
					add("cookie_session_fully_authed", fmt.Sprintf("the winning request of browser %d is not marked half-authenticated", authed[0]))
				}
			}
			if len(kept) > 0 && len(authed) >= 1 {
				add("dead_cookie_kept", fmt.Sprintf("browsers %v lost the race and still hold the used-up cookie", kept))
			}
			if tokens > 1 {
				add("tokens_multiplied", fmt.Sprintf("after one cookie was used by overlapping requests the account holds %d stored tokens", tokens))
			}
			// distinct interleavings: who ran in which order
			h := newDigester(false)
			for _, p := range cs.picks[firstPick:] {
				h.line("%s", p)
			}
			res.EndState = "c07conc:" + h.sum()
			res.Nontrivial = true
			res.Stats.Reach["c07_conc_runs"]++
			res.Stats.Reach[fmt.Sprintf("c07_conc_racers_%d", len(racers))]++
		})
	}()
	if hp != nil {
		panic(fmt.Sprintf("harness panic in C07 concurrent run seed=%d: %v", plan.Seed, hp))
	}
	sort.Slice(res.Violations, func(i, j int) bool { return res.Violations[i].Sig() < res.Violations[j].Sig() })
	res.Stats.Steps = len(plan.Steps)
	res.Digest = dg.sum()
	res.Trace = dg.trace
	return res
}
