#!/bin/sh
# usage: ./sweep.sh "C01 C02 ..." "1 2 3" [tier]  — runs checks over several VERIF_SEEDs, prints one line each
props="$1"; seeds="$2"; tier="${3:-quick}"
for p in $props; do for s in $seeds; do
  out=$(VERIF_SEED=$s ./check $p $tier 2>&1); rc=$?
  echo "$p seed=$s rc=$rc $(echo "$out" | grep -c '^VIOLATION') viol; $(echo "$out" | grep -E '^(violation:|HARNESS)' | head -3 | tr '\n' '|' | cut -c1-300)"
done; done
