#!/bin/sh
# usage: ./seedkeep.sh C01 A "<needs>" "<caught-by summary>"   — stores a confirmed seeded change under /verif/seeded/<id><X>/
id="$1"; x="$2"; needs="$3"; caught="$4"
d=/verif/seeded/$id$x; mkdir -p $d
cp /tmp/wt/$id.mut$x.diff $d/patch.diff
cp /tmp/wt/$id.demo${x}_test.go $d/demo_test.go
python3 - "$id" "$x" "$needs" "$caught" "$d" <<'PY'
import json,sys,re
id,x,needs,caught,d=sys.argv[1:6]
demo=open(d+'/demo_test.go').read()
m=re.search(r"/tmp/wt/%s/([A-Za-z0-9_/.-]*_test.go)"%id, demo)
meta={"id":id+x,"breaks_property":id,"needs_to_manifest":needs,
 "demonstration":{"file":"demo_test.go","copy_to":(m.group(1) if m else ""),"fails_with_change":True,"passes_without":True},
 "confirmed_by":"./mutconfirm.sh %s %s (full library suite green with the change; demo fails with it, passes without)"%(id,x),
 "checks_run":caught}
json.dump(meta,open(d+'/meta.json','w'),indent=1)
PY
echo kept $d
