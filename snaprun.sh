#!/bin/sh
# usage: ./snaprun.sh <name> <command...>
# Copies the committed+working /verif (without seeded/) and /repo to /tmp/snap/<name>/ and runs the
# command there in the background with VERIF_REPO pointing at the repo copy; output in /tmp/snap/<name>.log.
# Lets a long sweep run while /verif and /repo keep changing.
name="$1"; shift
d=/tmp/snap/$name
rm -rf "$d"; mkdir -p "$d/verif" 
mkdir -p "$d/repo" && git -C /repo archive HEAD | tar xf - -C "$d/repo"
cd /verif && tar cf - --exclude=./seeded --exclude=./.git --exclude=./replays --exclude=./evidence . | (cd "$d/verif" && tar xf -)
mkdir -p "$d/verif/replays" "$d/verif/evidence"
cp /verif/replays/kept-* "$d/verif/replays/" 2>/dev/null
cd "$d/verif" && VERIF_REPO="$d/repo" nohup "$@" > "/tmp/snap/$name.log" 2>&1 &
echo "started $name"
