#!/bin/sh
# usage: ./muttest2.sh <patch> "<props>" [tier]  — like muttest.sh, but applies the patch to a scratch worktree of /repo's HEAD
# under /tmp (removed afterwards) and points the checks at it with VERIF_REPO, so that /repo itself is free for other work.
patch="$1"; props="$2"; tier="${3:-quick}"
d=/tmp/mt2.$$; rm -rf $d
git -C /repo worktree add --detach $d HEAD -q || exit 3
if ! git -C $d apply "$patch"; then echo "PATCH DOES NOT APPLY"; git -C /repo worktree remove --force $d; exit 3; fi
for p in $props; do
  out=$(cd /verif && VERIF_REPO=$d ./check $p $tier 2>&1); rc=$?
  echo "MUT $(basename $patch) $p $tier rc=$rc :: $(echo "$out" | grep -E '^(violation:|KNOWN-FINDING|HARNESS)' | cut -c1-160 | tr '\n' '|')"
done
git -C /repo worktree remove --force $d; git -C /repo worktree prune
