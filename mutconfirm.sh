#!/bin/sh
# usage: ./mutconfirm.sh C01 A  — confirms in the scratch worktree that a seeded change passes the suite and that its demo fails with / passes without it
id="$1"; x="$2"; wt=/tmp/wt/$id; patch=/tmp/wt/$id.mut$x.diff; demo=/tmp/wt/$id.demo${x}_test.go
export GOFLAGS=-mod=mod GOPROXY=off GOSUMDB=off
dest=$(grep -m1 -o "/tmp/wt/$id/[A-Za-z0-9_/.-]*_test.go" $demo)
[ -z "$dest" ] && { echo "CONFIRM $id$x: no destination in demo"; exit 3; }
git -C $wt checkout -q -- . ; git -C $wt clean -fdq
git -C $wt apply $patch || { echo "CONFIRM $id$x: patch does not apply"; exit 3; }
suite=$(cd $wt && go test -count=1 ./... 2>&1 | grep -v "^ok\|no test files" | head -5)
cp $demo $dest
pkg=$(dirname $dest)
with=$(cd $pkg && go test -count=1 . 2>&1 | tail -1)
git -C $wt checkout -q -- .
without=$(cd $pkg && go test -count=1 . 2>&1 | tail -1)
rm -f $dest; git -C $wt clean -fdq
echo "CONFIRM $id$x: suite_failures=[$suite] demo_with_change=[$with] demo_without=[$without]"
