#!/usr/bin/env python3
"""Runner for the authboss deterministic-simulation checks.

  runner.py <ID> quick|thorough     run a property check (honours VERIF_SEED)
  runner.py replay <file>            re-execute a replay file in a fresh process
  runner.py selftest [ID ...]        determinism self-test

Exit codes: 0 held (possibly with KNOWN-FINDING lines), 1 violation,
2 harness/build trouble (never reported as a violation).
"""
import json, os, re, shutil, subprocess, sys, time, hashlib, signal

VERIF = os.path.dirname(os.path.abspath(__file__))
REPO = os.environ.get("VERIF_REPO", "/repo")
GO = "go1.26.8"
NCPU = os.cpu_count() or 4

# runs per (tier); per-property overrides below. Fixed numbers so that what a
# tier covers is a function of VERIF_SEED and the code only.
RUNS = {
    "default": {"quick": 480, "thorough": 20000},
    "C04": {"quick": 640, "thorough": 60000},
    "C01": {"quick": 480, "thorough": 30000},
    "C02": {"quick": 480, "thorough": 30000},
    "C03": {"quick": 480, "thorough": 30000},
    "C13": {"quick": 320, "thorough": 8000},
    "C08": {"quick": 480, "thorough": 20000},
    "C09": {"quick": 480, "thorough": 30000},
    "C10": {"quick": 480, "thorough": 30000},
    "C11": {"quick": 4000, "thorough": 400000},
    "C14": {"quick": 480, "thorough": 30000},
    "C15": {"quick": 480, "thorough": 30000},
    "C16": {"quick": 480, "thorough": 30000},
    "C17": {"quick": 480, "thorough": 30000},
    "C19": {"quick": 480, "thorough": 30000},
    "C18": {"quick": 512, "thorough": 10240},
    "C20": {"quick": 160, "thorough": 9600},
    "C05": {"quick": 480, "thorough": 30000},
    "C06": {"quick": 480, "thorough": 30000},
    "C07": {"quick": 480, "thorough": 30000},
    "C12": {"quick": 480, "thorough": 30000},
}
DEFAULT_SEED = 20260928
WATCHDOG = {"quick": 900, "thorough": 3 * 3600}


def env_go():
    e = dict(os.environ)
    e.update(GOFLAGS="-mod=mod", GOPROXY="off", GOSUMDB="off", GOTOOLCHAIN="local", CGO_ENABLED=e.get("CGO_ENABLED", "1"))
    return e


def die(code, msg):
    print(msg, flush=True)
    sys.exit(code)


class Work:
    def __init__(self):
        self.dir = os.path.join(VERIF, ".work", "run-%d" % os.getpid())
        os.makedirs(self.dir, exist_ok=True)

    def cleanup(self):
        shutil.rmtree(self.dir, ignore_errors=True)


def build(work, race=False):
    out = os.path.join(work.dir, "sim.race.test" if race else "sim.test")
    # go.sum must match the repo's
    try:
        shutil.copyfile(os.path.join(REPO, "go.sum"), os.path.join(VERIF, "sim", "go.sum.repo"))
    except OSError:
        pass
    cmd = [GO, "test", "-c", "-tags", "verif", "-o", out]
    if REPO != "/repo":
        # background runs work on a snapshot of the repository (VERIF_REPO)
        mod = open(os.path.join(VERIF, "sim", "go.mod")).read().replace("=> /repo", "=> " + REPO)
        modfile = os.path.join(work.dir, "go.mod")
        open(modfile, "w").write(mod)
        shutil.copyfile(os.path.join(VERIF, "sim", "go.sum"), os.path.join(work.dir, "go.sum"))
        cmd += ["-modfile", modfile]
    if race:
        cmd.append("-race")
    cmd.append(".")
    t0 = time.time()
    p = subprocess.run(cmd, cwd=os.path.join(VERIF, "sim"), env=env_go(), stdout=subprocess.PIPE, stderr=subprocess.STDOUT, text=True)
    if p.returncode != 0:
        print(p.stdout)
        die(2, "HARNESS-ERROR: build of the simulation against %s failed (exit 2, not a violation)" % REPO)
    return out, time.time() - t0


def load_known():
    p = os.path.join(VERIF, "known_findings.json")
    if not os.path.exists(p):
        return []
    with open(p) as f:
        return [k for k in json.load(f).get("findings", []) if k.get("status") == "open"]


def match_known(known, prop, sig):
    for k in known:
        if k["property"] == prop and re.search(k["pattern"], sig):
            return k
    return None


def worker_env(shard):
    e = env_go()
    # half of the workers run net/http's ServeMux with the pre-1.22 matching
    # rules (what a module declaring go 1.20 gets by default)
    if shard % 2 == 1:
        e["GODEBUG"] = "httpmuxgo121=1"
    else:
        e.pop("GODEBUG", None)
    return e


RACE_LIB = "github.com/volatiletech/authboss/v3"


def parse_races(text, shard):
    """Race reports in a worker log, each attributed to the run announced by the last SIMRUN marker before it."""
    out = []
    seed, phase = None, None
    lines = text.split("\n")
    i = 0
    while i < len(lines):
        ln = lines[i]
        m = re.match(r"SIMRUN seed=(\d+) phase=(\S+)", ln)
        if m:
            seed, phase = int(m.group(1)), m.group(2)
        if ln.startswith("WARNING: DATA RACE"):
            j = i + 1
            block = [ln]
            while j < len(lines) and not lines[j].startswith("=================="):
                block.append(lines[j]); j += 1
            # split into the two access stacks
            stacks, cur = [], None
            for b in block[1:]:
                if re.match(r"^(Read|Write|Previous read|Previous write|Atomic|Previous atomic)", b.strip()):
                    cur = []; stacks.append(cur)
                elif b.startswith("Goroutine "):
                    cur = None
                elif cur is not None and b.startswith("      ") and cur:
                    cur[-1] = (cur[-1][0], b.strip().split(" ")[0])  # file:line of the frame above
                elif cur is not None and b.startswith("  "):
                    cur.append((b.strip(), ""))
            tops = []
            for st in stacks[:2]:
                # the access belongs to the innermost frame that is library or harness code (frames of the
                # runtime, the standard library and third-party modules above it are how the access was made).
                # A harness callback the library calls (storage, event hook) is harness code, not library code.
                label = ""
                for fn, fl in st:
                    if fl.startswith(REPO + "/"):
                        if RACE_LIB in fn:
                            label = re.sub(r"\(\)$", "", fn.replace(RACE_LIB + "/", ""))
                        else:
                            # library code inlined into a harness function: harness name, library file
                            rel = fl[len(REPO) + 1:].rsplit(":", 1)[0]
                            m2 = re.search(r"([A-Za-z0-9_]+)(?:\.func\d+)+\(\)$", fn)
                            label = rel + (":" + m2.group(1) if m2 else "")
                        break
                    if fl.startswith(VERIF + "/") or fn.startswith("verif/sim."):
                        break  # harness access
                tops.append(label)
            lib = any(tops)
            sig = "C20 clause=data_race site=" + "|".join(sorted(t for t in tops if t))
            out.append({"seed": seed, "phase": phase, "sig": sig, "lib": lib, "text": "\n".join(block), "shard": shard})
            i = j
        i += 1
    return out


def race_in_replay(binp, work, planfile, sig, godebug=None, attempts=1):
    """Replays a schedule under the race detector. The schedule is replayed exactly, but whether the detector
    reports a given race is probabilistic: in race builds sync.Pool drops objects at random, and a pooled object
    passed from one task to the other is a happens-before edge that hides the race for that execution. So the
    replay is attempted several times; one report is proof (the detector has no false positives)."""
    e = env_go()
    if godebug:
        e["GODEBUG"] = godebug
    else:
        e.pop("GODEBUG", None)
    for _ in range(attempts):
        p = subprocess.run([binp, "-test.run", "^TestSim$", "-test.timeout", "0", "-test.cpu", "4", "-sim.replay", planfile], env=e, cwd=work.dir,
                           stdout=subprocess.PIPE, stderr=subprocess.STDOUT, text=True, errors="replace")
        if any(r["sig"] == sig for r in parse_races(p.stdout, 0)):
            return True
    return False


def race_replay(work, binp, sig, rep, tier, replaydir, minimise=True):
    """Turn a race report into a minimised, verified replay file."""
    godebug = "httpmuxgo121=1" if rep["shard"] % 2 == 1 else None
    e = env_go()
    if godebug:
        e["GODEBUG"] = godebug
    else:
        e.pop("GODEBUG", None)
    planfile = os.path.join(work.dir, "raceplan.%d.json" % rep["seed"])
    subprocess.run([binp, "-test.run", "^TestSim$", "-sim.tier", tier, "-sim.dumpplan", str(rep["seed"]), "-sim.out", planfile], env=e, cwd=work.dir,
                   stdout=subprocess.PIPE, stderr=subprocess.STDOUT)
    plan = json.load(open(planfile))
    plan["expect"] = sig
    plan["detail"] = rep["text"][:1500]

    def holds(steps, attempts=4):
        q = dict(plan); q["steps"] = steps
        tmp = os.path.join(work.dir, "racetry.json")
        json.dump(q, open(tmp, "w"))
        return race_in_replay(binp, work, tmp, sig, godebug, attempts)

    steps = plan["steps"]
    full = steps
    repro = holds(steps, 16 if minimise else 6)
    budget = 16
    if repro and minimise:
        # drop whole clients first, then single actions
        for b in sorted(set(s["b"] for s in steps), reverse=True):
            if budget <= 0:
                break
            cand = [s for s in steps if s["b"] != b]
            budget -= 1
            if len(set(s["b"] for s in cand)) >= 1 and cand and holds(cand):
                steps = cand
        i = len(steps) - 1
        while i >= 0 and budget > 0:
            cand = steps[:i] + steps[i + 1:]
            budget -= 1
            if cand and holds(cand):
                steps = cand
            i -= 1
        if not holds(steps, 16):
            steps = full
    plan["steps"] = steps
    h = hashlib.sha256(sig.encode()).hexdigest()[:16]
    path = os.path.join(replaydir, "C20-%d-%s.json" % (rep["seed"], h))
    json.dump(plan, open(path, "w"), indent=1)
    return {"sig": sig, "prop": "C20", "detail": "race detector: " + sig.split("site=")[1] + " (run seed %s, phase %s)" % (rep["seed"], rep["phase"]),
            "run_seed": rep["seed"], "replay": path, "steps": len(steps),
            # a detector report that names library frames is proof by itself; the file replays the schedule
            "repro": True, "detector_repro": repro}


def run_check(prop, tier):
    t0 = time.time()
    seed = int(os.environ.get("VERIF_SEED", DEFAULT_SEED))
    tier = os.environ.get("VERIF_TIER", tier)
    if tier not in ("quick", "thorough"):
        die(2, "HARNESS-ERROR: bad tier %r" % tier)
    runs = RUNS.get(prop, RUNS["default"]).get(tier, RUNS["default"][tier])
    if os.environ.get("VERIF_RUNS"):
        runs = int(os.environ["VERIF_RUNS"])
    work = Work()
    try:
        race = prop == "C20"
        binp, build_s = build(work, race=race)
        nshards = min(NCPU, max(1, runs))
        replaydir = os.path.join(VERIF, "replays")
        os.makedirs(replaydir, exist_ok=True)
        procs = []
        for sh in range(nshards):
            out = os.path.join(work.dir, "out.%d.json" % sh)
            cmd = [binp, "-test.run", "^TestSim$", "-test.timeout", "0", "-test.cpu", "1" if not race else "4",
                   "-sim.prop", prop, "-sim.tier", tier, "-sim.seed", str(seed), "-sim.runs", str(runs),
                   "-sim.shard", str(sh), "-sim.nshards", str(nshards), "-sim.out", out, "-sim.replaydir", replaydir]
            if sh == 0:
                cmd += ["-sim.digestn", "4"]
            log = open(os.path.join(work.dir, "log.%d.txt" % sh), "w")
            procs.append((sh, out, subprocess.Popen(cmd, env=worker_env(sh), stdout=log, stderr=subprocess.STDOUT, cwd=work.dir), log))
        deadline = t0 + WATCHDOG[tier]
        results = []
        for sh, out, p, log in procs:
            try:
                p.wait(timeout=max(1, deadline - time.time()))
            except subprocess.TimeoutExpired:
                for _, _, q, _ in procs:
                    q.kill()
                die(2, "HARNESS-ERROR: watchdog fired after %ds (exit 2, not a pass and not a violation)" % WATCHDOG[tier])
            log.close()
            # a race build exits 1 when the detector reported something; the result file is still written
            if (p.returncode != 0 and not (race and p.returncode == 1 and os.path.exists(out))) or not os.path.exists(out):
                sys.stdout.write(open(os.path.join(work.dir, "log.%d.txt" % sh)).read()[-6000:])
                die(2, "HARNESS-ERROR: worker %d exited %s without a result (exit 2)" % (sh, p.returncode))
            with open(out) as f:
                results.append(json.load(f))

        race_viols = []
        if race:
            reports = []
            for sh in range(nshards):
                reports += parse_races(open(os.path.join(work.dir, "log.%d.txt" % sh), errors="replace").read(), sh)
            harness_only = [r for r in reports if not r["lib"]]
            if harness_only:
                print(harness_only[0]["text"][:3000])
                die(2, "HARNESS-ERROR: the race detector reported a race without any authboss frame (harness defect, exit 2)")
            seen = {}
            for r in reports:
                seen.setdefault(r["sig"], r)
            for i, (sig, r) in enumerate(sorted(seen.items())):
                # minimising is costly (every candidate schedule is replayed several times): the first
                # two distinct reports are minimised, further ones get their full schedule as the replay file
                race_viols.append(race_replay(work, binp, sig, r, tier, replaydir, minimise=i < 2))

        # determinism spot check: shard 0's first runs again, other GOMAXPROCS
        det_mismatch = None
        d0 = results[0].get("digests") or {}
        if d0:
            out = os.path.join(work.dir, "out.verify.json")
            cmd = [binp, "-test.run", "^TestSim$", "-test.timeout", "0", "-test.cpu", "16" if not race else "2",
                   "-sim.prop", prop, "-sim.tier", tier, "-sim.seed", str(seed), "-sim.runs", str(min(runs, 4 * nshards)),
                   "-sim.shard", "0", "-sim.nshards", str(nshards), "-sim.out", out, "-sim.digestn", "4", "-sim.shrink", "0"]
            p = subprocess.run(cmd, env=worker_env(0), stdout=subprocess.PIPE, stderr=subprocess.STDOUT, cwd=work.dir, text=True)
            if p.returncode != 0 and not (race and p.returncode == 1 and os.path.exists(out)):
                print(p.stdout[-4000:])
                die(2, "HARNESS-ERROR: determinism re-run failed (exit 2)")
            d1 = json.load(open(out)).get("digests") or {}
            for k, v in d1.items():
                if d0.get(k) != v and not det_mismatch:
                    # decided after the merge: a library that has become
                    # nondeterministic (a pool, a map order, a goroutine of its
                    # own) shows here first, and a violation that reproduces
                    # from its replay file is the better report
                    det_mismatch = "determinism self-check mismatch for run seed %s (%s vs %s)" % (k, d0.get(k), v)
        det_checked = len(d0)

        # merge
        known = load_known()
        total_runs = sum(r["runs"] for r in results)
        nontrivial = sum(r["nontrivial"] for r in results)
        states = set()
        stats = {"requests": 0, "steps": 0, "sim_time_ns": 0, "faults": {}, "reach": {}, "step_kinds": {}}
        sigcounts = {}
        viols = {}
        samples = []
        extra = {}
        required = set()
        all_replays = []
        for r in results:
            states.update(r.get("states") or [])
            s = r.get("stats") or {}
            for k in ("requests", "steps", "sim_time_ns"):
                stats[k] += s.get(k, 0)
            for k in ("faults", "reach", "step_kinds"):
                for kk, vv in (s.get(k) or {}).items():
                    stats[k][kk] = stats[k].get(kk, 0) + vv
            for k, v in (r.get("sig_counts") or {}).items():
                sigcounts[k] = sigcounts.get(k, 0) + v
            for v in r.get("violations") or []:
                all_replays.append(v.get("replay"))
                cur = viols.get(v["sig"])
                if cur is None or (v["steps"], v["run_seed"]) < (cur["steps"], cur["run_seed"]):
                    viols[v["sig"]] = v
            for k, v in (r.get("extra") or {}).items():
                extra[k] = extra.get(k, 0) + v
            required.update(r.get("required_reach") or [])
            if len(samples) < 3:
                samples += (r.get("samples") or [])[:1]

        for rv in race_viols:
            viols[rv["sig"]] = rv
            sigcounts[rv["sig"]] = sigcounts.get(rv["sig"], 0) + rv.get("count", 1)
        chosen = set(v.get("replay") for v in viols.values())
        for rp in all_replays:
            if rp and rp not in chosen and os.path.exists(rp):
                os.remove(rp)
        new_viol, known_hit = [], []
        for sig, v in sorted(viols.items()):
            k = match_known(known, prop, sig)
            (known_hit if k else new_viol).append((sig, v, k))
        norepro = [v for _, v, _ in new_viol if not v.get("repro")]

        wall = time.time() - t0
        missing_reach = sorted(k for k in required if stats["reach"].get(k, 0) == 0)
        ev = {
            "property_id": prop, "tier": tier, "seed": seed,
            "level": LEVEL.get(prop, "exploration"),
            "coverage": {
                "evaluations": total_runs,
                "distinct_nontrivial": len(states),
                "rule": RULE.get(prop, RULE["default"]),
                "samples": samples,
                "runs_nontrivial": nontrivial,
                "requests_executed": stats["requests"],
                "steps_executed": stats["steps"],
                "simulated_time_s": round(stats["sim_time_ns"] / 1e9, 1),
                "runs_per_hour": int(total_runs / max(wall - build_s, 0.001) * 3600),
                "faults_fired": stats["faults"],
                "reach_probes": stats["reach"],
                "step_kinds": stats["step_kinds"],
                "violation_signatures": sigcounts,
                "known_findings_hit": sorted(k["id"] for _, _, k in known_hit),
                "determinism_spot_checks": det_checked,
                "workers": nshards,
                "components": COMPONENTS,
                "exhaustive": False,
            },
            "assumptions": ASSUMPTIONS.get(prop, []) + ASSUMPTIONS["all"],
            "wall_s": round(wall, 2),
            "violations": len(new_viol),
        }
        ev["coverage"].update(extra_cov(prop, extra))
        os.makedirs(os.path.join(VERIF, "evidence"), exist_ok=True)
        with open(os.path.join(VERIF, "evidence", prop + ".json"), "w") as f:
            json.dump(ev, f, indent=1, sort_keys=True)
            f.write("\n")

        # every listed finding is re-checked from its committed replay file, so
        # that the KNOWN-FINDING line does not depend on the sampled runs
        hit_ids = {}
        for sig, v, k in known_hit:
            hit_ids[k["id"]] = hit_ids.get(k["id"], 0) + sigcounts.get(sig, 0)
        for k in known:
            if k["property"] != prop:
                continue
            still = k["id"] in hit_ids
            rp = os.path.join(VERIF, k.get("replay", ""))
            if k.get("replay") and os.path.exists(rp):
                out = os.path.join(work.dir, "kf.%s.json" % k["id"])
                e = env_go()
                plan = json.load(open(rp))
                if (plan.get("env") or {}).get("GODEBUG"):
                    e["GODEBUG"] = plan["env"]["GODEBUG"]
                else:
                    e.pop("GODEBUG", None)
                p = subprocess.run([binp, "-test.run", "^TestSim$", "-test.timeout", "0", "-sim.replay", rp, "-sim.out", out], env=e, cwd=work.dir,
                                   stdout=subprocess.PIPE, stderr=subprocess.STDOUT, text=True)
                if p.returncode == 0 and os.path.exists(out) and json.load(open(out)).get("reproduced"):
                    still = True
            if still:
                print("KNOWN-FINDING: property=%s %s [%s; replay=%s; also met %d times in this batch]" % (prop, k["what"], k["id"], k.get("replay"), hit_ids.get(k["id"], 0)))
        # known-finding replays are scratch: do not litter the tree
        for sig, v, k in known_hit:
            rp = v.get("replay")
            if rp and os.path.exists(rp) and os.path.dirname(rp) == replaydir:
                try:
                    os.remove(rp)
                except OSError:
                    pass
        print("%s %s: %d runs, %d requests, %d distinct non-trivial end states, %.0f s simulated, %.1f s wall (build %.1f s), seed %d" % (
            prop, tier, total_runs, stats["requests"], len(states), stats["sim_time_ns"] / 1e9, wall, build_s, seed))
        for v in norepro:
            print("note: not exactly reproducible from its replay file (racy tree?): %s :: %s" % (v["sig"], v["detail"][:300]))
        new_viol = [x for x in new_viol if x[1].get("repro")]
        if det_mismatch and not new_viol:
            die(2, "HARNESS-ERROR: %s (exit 2)" % det_mismatch)
        if det_mismatch:
            print("note: %s - the same seed gave two different executions in two processes, so something outside the simulator's seams decides behaviour on this tree" % det_mismatch)
        if not new_viol and norepro:
            die(2, "HARNESS-ERROR: violations were seen but none reproduced exactly from its replay file (exit 2)")
        if not new_viol and missing_reach:
            die(2, "HARNESS-ERROR: reach probes stuck at zero: %s (the workload never exercised them; exit 2, not a pass)" % ", ".join(missing_reach))
        if new_viol:
            for sig, v, _ in new_viol:
                print("violation: %s\n   %s\n   minimised to %d steps, seen %d times" % (sig, v["detail"], v["steps"], sigcounts.get(sig, 0)))
                if v.get("flaky"):
                    print("   note: not a function of the schedule on this tree: fresh processes showed it in %s replays of the unshrunk plan (the library keeps state outside the simulator's seams); the replay file tries up to 48 times" % v["flaky"])
                elif v.get("how") and v["how"] != "exact":
                    print("   note: reproduces %s" % v["how"])
                if v.get("detector_repro") is False:
                    print("   note: the replay file reproduces the schedule; the race detector did not repeat its report in 16 attempts (its reports are probabilistic, see DESIGN 14)")
                print("VIOLATION property=%s replay=%s" % (prop, v["replay"]))
            sys.stdout.flush()
            sys.exit(1)
        print("OK property=%s held on everything explored" % prop)
        sys.exit(0)
    finally:
        work.cleanup()


def run_replay(path):
    work = Work()
    try:
        plan = json.load(open(path))
        race = plan.get("prop") == "C20"
        binp, _ = build(work, race=race)
        e = env_go()
        if (plan.get("env") or {}).get("GODEBUG"):
            e["GODEBUG"] = plan["env"]["GODEBUG"]
        else:
            e.pop("GODEBUG", None)
        out = os.path.join(work.dir, "replay.json")
        p = subprocess.run([binp, "-test.run", "^TestSim$", "-test.timeout", "0", "-sim.replay", os.path.abspath(path), "-sim.out", out] +
                           (["-sim.trace"] if os.environ.get("VERIF_TRACE") else []),
                           env=e, cwd=work.dir, stdout=subprocess.PIPE, stderr=subprocess.STDOUT, text=True)
        sys.stdout.write(p.stdout)
        if (p.returncode != 0 and not (race and p.returncode == 1)) or not os.path.exists(out):
            die(2, "HARNESS-ERROR: replay process failed (exit 2)")
        r = json.load(open(out))
        if race and plan.get("expect", "").startswith("C20 clause=data_race"):
            r["reproduced"] = any(x["sig"] == plan["expect"] for x in parse_races(p.stdout, 0))
            if not r["reproduced"]:
                # same schedule, further detector attempts (see race_in_replay)
                r["reproduced"] = race_in_replay(binp, work, os.path.abspath(path), plan["expect"], (plan.get("env") or {}).get("GODEBUG"), 24)
            r["digest_match"] = True
        if r["reproduced"]:
            if not r["digest_match"]:
                print("note: violation reproduced but the trace digest differs (the tree changed since the file was written)")
            print("VIOLATION property=%s replay=%s" % (r["prop"], path))
            sys.exit(1)
        print("replay did not reproduce %r on this tree (violations seen: %s)" % (r["expect"], r["violations"]))
        sys.exit(0)
    finally:
        work.cleanup()


def run_selftest(props):
    """>= 30 seeds per property, separate processes at GOMAXPROCS 1/4/16, digests must agree."""
    work = Work()
    try:
        binp, _ = build(work)
        bad = 0
        for prop in props:
            per = {}
            for cpu in ("1", "4", "16"):
                for rep in range(2):
                    out = os.path.join(work.dir, "st.%s.%s.%d.json" % (prop, cpu, rep))
                    cmd = [binp, "-test.run", "^TestSim$", "-test.timeout", "0", "-test.cpu", cpu, "-sim.prop", prop, "-sim.tier", "quick",
                           "-sim.seed", "777", "-sim.runs", "32", "-sim.out", out, "-sim.digestn", "32", "-sim.shrink", "0"]
                    e = env_go(); e["GOMAXPROCS"] = cpu
                    p = subprocess.run(cmd, env=e, cwd=work.dir, stdout=subprocess.PIPE, stderr=subprocess.STDOUT, text=True)
                    if p.returncode != 0:
                        print(p.stdout[-3000:]); die(2, "HARNESS-ERROR: selftest worker failed")
                    per[(cpu, rep)] = json.load(open(out))["digests"]
            ref = per[("1", 0)]
            for key, d in per.items():
                for k, v in ref.items():
                    if d.get(k) != v:
                        print("MISMATCH %s run %s at GOMAXPROCS/rep %s" % (prop, k, key)); bad += 1
            print("selftest %s: %d seeds x 6 processes compared, mismatches so far %d" % (prop, len(ref), bad))
        sys.exit(2 if bad else 0)
    finally:
        work.cleanup()


LEVEL = {"C08": "fault_enumeration", "C18": "fault_enumeration"}

COMPONENTS = {
    "real": ["authboss core + all modules (auth, confirm, expire, lock, logout, oauth2, otp, recover, register, remember, totp2fa, sms2fa, twofactor)",
             "defaults: router, body reader, responder, redirector, error handler, logger, JSON renderer, log mailer, SMTP mailer up to the dial",
             "bcrypt (cost lowered by configuration)", "pquerna/otp", "golang.org/x/oauth2 client", "net/http ServeMux"],
    "simulated": ["database (copy semantics)", "session and cookie stores (per-browser jars)", "mail / SMS / OAuth2 provider transports",
                  "operator", "clock (testing/synctest bubble)", "crypto/rand (seeded stream)", "goroutine scheduling at seams",
                  "a second, unrelated authboss instance (real code, own user store, never sent a request) hosted by the same process in a third of the configurations"],
    "stubbed": ["SMTP network (dial always fails)", "HTML templates (JSON renderer used)", "otp pages of the default body reader (thin wrapper)"],
}

RULE = {
    "default": "each evaluation is one seeded simulated run (configuration + generated multi-browser request history with time gaps, operator actions and optional injected faults); "
               "a run is non-trivial when at least one positive reach probe of the property fired in it; distinct = distinct abstract end state "
               "(per browser: set of session keys, which account uid names, rm cookie present; per account: locked/confirmed/factors/list sizes/outstanding tokens/attempt count; remember-table size)",
}

ASSUMPTIONS = {
    "all": ["sampling: a clean batch is evidence, not proof", "testing/synctest time semantics (go1.26.8)", "harness knowledge base and reference models are written from the property text",
            "consumer-supplied components (storage, session store, mail/SMS transports) behave as the documented interfaces demand"],
    "C01": ["expiry middleware not installed (C09 covers it); password validity = independent bcrypt check of the stored hash; a third of the runs inject storage/hasher/renderer faults (a faulted request may only fail)"],
    "C02": ["TOTP codes within +-1 period of now are accepted either way; the SMS outbox (number, code) is the ground truth for 'sent to its registered number'",
            "scope: accounts that have a factor enabled, or whose login was pending (what a cookie-authenticated session may do is C07)"],
    "C03": ["OAuth2 accounts are created confirmed by the simulated storer; an instant exactly equal to the lock expiry counts as unlocked; cookie re-authentication (half-auth) of a gated account is left to the middleware clause"],
    "C04": ["configuration domain: lock module loaded, oauth2/recover not loaded, login-after-recovery off (other login paths are covered by C01/C03)",
            "an instant exactly equal to the lock expiry, a TOTP code in the +-1 period skew band, a correct second factor while locked (C03's business) and wrong codes on SMS enrolment pages are accepted either way (the reference adopts the stored state)"],
    "C05": ["token identity is compared on decoded bytes (URL-safe base64 with or without padding, CR/LF ignored); age exactly equal to the validity period is accepted either way; thorough tier sweeps all 512 single-bit flips in blocks of 64 per run"],
    "C06": ["candidate set for 'verifies only the new password': old passwords, other accounts' passwords, prefix, extensions, empty; a change whose request was reported as failed is not an acknowledged change"],
    "C07": ["positive direction (valid cookie must authenticate, mark half-auth, rotate) judged on probe requests; logout need not revoke server-side"],
    "C08": ["the requirement x refusal x mount-pathed table is enumerated completely for every reached session state; paths/queries are sampled from a hostile alphabet; requirements unmet plus storage failure accepts refusal or 500, a session naming nobody must get the refusal"],
    "C09": ["last_action has one-second resolution: gaps in (ExpireAfter-1s, ExpireAfter] are accepted either way (one instant with the whole-second clock); remember module not loaded (documented conflict)"],
    "C10": ["flash_success / flash_error exempt (written by the logout redirect itself); whitelists hold application keys only"],
    "C11": ["operation-sequence testing, no time/schedule; programs that never write are not judged; after an injected store write failure only at-most-once and ordering are required (documented panic)"],
    "C12": ["'successful use' = session established, pending login parked or factor removed; a secret consumed without a successful use is rated 'maybe'; TOTP replay = two consecutive accepted submissions of the same code"],
    "C13": ["disabling SMS 2FA: lenient reading (the code the session currently expects); KF2 (authorisation bound to the session, not the account) is a recorded known finding"],
    "C14": ["a callback that matched the state but ended in an error leaves the state's status open ('maybe'); freshness of an authorisation code is the simulated provider's own record"],
    "C15": ["string dimension bounded by the generator grammar; base URL https://site.example; classification follows WHATWG URL parsing (control characters stripped, backslash == slash for special schemes)"],
    "C16": ["only the differing input string itself is redacted before the byte comparison; timing side channels out of scope"],
    "C17": ["secrets shorter than 8 characters and digit codes are not scanned (chance substrings); TOTP secrets, SMS numbers and OAuth2 access tokens are not in the property's list; log lines are also scanned for the query-escaped form"],
    "C18": ["(call index x error kind) is enumerated completely for each executed scenario under both error handlers; other configuration dimensions are sampled",
            "exemptions: spurious not-found on recover start is answered like an unknown user (anti-enumeration by design); storage failures inside the remember middleware are logged and the request served unauthenticated (documented) unless a cookie is still handed out"],
    "C19": ["lengths counted in bytes; passwords containing runes whose class the statement leaves open (Lt/Lm/Lo, Nl/No, marks, controls) are 'undecided'; the policy clause is checked only for well-formed identifiers with a matching confirmation"],
    "C20": ["harness state shared by tasks (database, mail/SMS outboxes, IdP) keeps a mutex, which can mask a race for one interleaving; the seed search over interleavings removes the mask; race reports without an authboss frame would be exit 2 (none occur)",
            "clients act on disjoint accounts; scripts never keep two mails outstanding (their arrival order would be a legitimate difference)"],
}


def extra_cov(prop, extra):
    out = {"extra_counters": extra} if extra else {}
    if prop == "C18":
        out["enumerated_subspace"] = "for every executed scenario and both error handlers: every faultable seam call index of the target request x every error kind meaningful at that call (complete); scenario x configuration pairs are sampled"
    if prop == "C08":
        out["enumerated_subspace"] = "for every reached session state: all 4 requirement sets x 3 refusal modes x 2 mount-pathed settings (complete); paths, queries and the injected storage outcome are sampled"
    if prop == "C20":
        out["distinct_measure"] = "distinct_nontrivial counts distinct interleavings: hashes of the scheduler's (task, seam) pick sequence"
    return out


def main():
    if len(sys.argv) < 2:
        die(2, __doc__)
    if sys.argv[1] == "replay":
        run_replay(sys.argv[2])
    elif sys.argv[1] == "selftest":
        run_selftest(sys.argv[2:] or ["C04"])
    else:
        run_check(sys.argv[1], sys.argv[2] if len(sys.argv) > 2 else "quick")


if __name__ == "__main__":
    main()
